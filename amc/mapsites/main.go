// mapsites: lists every `range` statement over a map (and every maps.Keys /
// maps.Values call) in the given package directories of the repository, using
// go/types with the source importer. Output: one "pkgdir/file.go:line" per line.
//
//	mapsites -repo /repo pkg/machine
package main

import (
	"flag"
	"fmt"
	"go/ast"
	"go/importer"
	"go/parser"
	"go/token"
	"go/types"
	"os"
	"path/filepath"
	"sort"
	"strings"
)

func main() {
	repo := flag.String("repo", "/repo", "")
	flag.Parse()
	if err := os.Chdir(*repo); err != nil {
		panic(err)
	}
	var out []string
	for _, dir := range flag.Args() {
		fset := token.NewFileSet()
		pkgs, err := parser.ParseDir(fset, filepath.Join(*repo, dir), func(fi os.FileInfo) bool {
			return !strings.HasSuffix(fi.Name(), "_test.go")
		}, 0)
		if err != nil {
			fmt.Fprintln(os.Stderr, "mapsites:", err)
			os.Exit(1)
		}
		for _, pkg := range pkgs {
			var files []*ast.File
			for _, f := range pkg.Files {
				files = append(files, f)
			}
			conf := types.Config{Importer: importer.ForCompiler(fset, "source", nil), Error: func(err error) {}}
			info := &types.Info{Types: map[ast.Expr]types.TypeAndValue{}}
			_, _ = conf.Check(dir, fset, files, info)
			for _, f := range files {
				ast.Inspect(f, func(n ast.Node) bool {
					rs, ok := n.(*ast.RangeStmt)
					if !ok {
						return true
					}
					tv, ok := info.Types[rs.X]
					if !ok || tv.Type == nil {
						fmt.Fprintf(os.Stderr, "mapsites: no type for range at %s\n", fset.Position(rs.Pos()))
						return true
					}
					if _, isMap := tv.Type.Underlying().(*types.Map); isMap {
						p := fset.Position(rs.Pos())
						out = append(out, fmt.Sprintf("%s/%s:%d", dir, filepath.Base(p.Filename), p.Line))
					}
					return true
				})
			}
		}
	}
	sort.Strings(out)
	for _, o := range out {
		fmt.Println(o)
	}
}
