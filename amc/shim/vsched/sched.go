// Package vsched is the controlled cooperative scheduler used by the /verif
// model-checking harnesses. It exists only in the build overlay (virtual
// package github.com/pancsta/asyncmachine-go/pkg/x/vsched). Instrumented code
// calls Point before every sync operation; exactly one controlled thread runs
// between two schedule points; quiescence is detected with synctest.Wait, so a
// run must happen inside a testing/synctest bubble.
//
// With no scheduler installed (S == nil) every entry point passes through, so
// an instrumented build behaves like the original one.
package vsched

import (
	"fmt"
	"runtime"
	"sort"
	"strings"
	stdsync "sync"
	"testing/synctest"
	"time"
	"unsafe"
)

type OpKind uint8

const (
	OpStart OpKind = iota
	OpLock
	OpRLock
	OpTryLock
	OpLoad
	OpStore // any atomic write / rmw
	OpAfterBlock
	OpYield
)

func (k OpKind) String() string {
	return [...]string{"start", "lock", "rlock", "trylock", "load", "store", "wake", "yield"}[k]
}

func (k OpKind) isWrite() bool { return k == OpLock || k == OpTryLock || k == OpStore }

type threadState uint8

const (
	stRunning threadState = iota
	stParked
	stNative
	stDone
)

type Thread struct {
	id      int
	name    string
	state   threadState
	kind    OpKind
	obj     unsafe.Pointer
	pc      uintptr
	label   string
	resume  chan struct{}
	wokenBy int  // thread whose step woke this one from a native wait (-1 none)
	fresh   bool // woken and not yet run since
	daemon  bool // service goroutine of the code under test: the run does not wait for it
}

// Token identifies the thread across a native blocking operation.
type Token *Thread

type muState struct {
	writer  int // thread id+1
	readers int
	pc      uintptr // call site of the last acquisition
}

// Decision is one recorded choice: a scheduling decision among Enabled
// threads, or an environment choice (Env) among N options.
type Decision struct {
	N      int    // number of options
	Free   int    // the first Free options cost 0, the others cost 1
	Chosen int    // index taken
	Env    bool   // environment choice (Choose/MapOrder), not a thread switch
	Label  string // readable description of the option taken
}

// Sched is one controlled execution.
type Sched struct {
	mu      stdsync.Mutex
	threads []*Thread
	mus     map[unsafe.Pointer]*muState
	wake    chan struct{}
	free    bool
	prefix  []int
	step    int
	Trace   []Decision
	cur     *Thread
	last    int

	// results
	Deadlock  bool     // no enabled thread while some thread is parked on a lock
	Stuck     []string // threads still natively blocked at the horizon
	Diverged  string   // replay divergence (harness error)
	Horizon   time.Duration
	MaxSteps  int
	Overrun   bool     // MaxSteps exceeded
	Panics    []string // panics that escaped a controlled thread
	// DeadlockInfo describes the lock-waiting threads of a detected deadlock.
	DeadlockInfo []string
	StepsRun  int
	PointsHit int

	// conflict tracking for this run: object -> accessors
	acc map[unsafe.Pointer]*access
}

type access struct {
	readers, writers uint64 // bitmask of thread ids (ids >= 64 share bit 63)
	pcs              map[uintptr]struct{}
}

// S is the installed scheduler (nil = pass-through).
var S *Sched

// ---- global, cross-run state: the conflict set (call-site PCs that are
// branch points) ----

var (
	confMu   stdsync.Mutex
	conflict = map[string]struct{}{} // call sites (file:line(func)) that are branch points
	pcKey    = map[uintptr]string{}
	confGrew bool
	// AllPoints disables conflict reduction: every point parks.
	AllPoints bool
	// DeviateTo, when non-nil, restricts costly (non-default) choices to the
	// threads with these names.
	DeviateTo []string
	// AllFreeOnBlock restores classic preemption bounding: when the running
	// thread blocks every enabled thread is a zero-cost choice.
	AllFreeOnBlock bool
	// Focus, when non-nil, restricts branch points to call sites whose
	// function name contains one of the substrings (declared under-approximation).
	Focus      []string
	focusCache = map[uintptr]bool{}
)

// ConflictSize returns the number of branch call sites learned so far.
func ConflictSize() int { confMu.Lock(); defer confMu.Unlock(); return len(conflict) }

// ConflictGrew reports (and clears) whether the conflict set grew since the last call.
func ConflictGrew() bool {
	confMu.Lock()
	defer confMu.Unlock()
	g := confGrew
	confGrew = false
	return g
}

// ConflictKeys returns the learned branch call sites (sorted file:line(func)).
func ConflictKeys() []string {
	confMu.Lock()
	defer confMu.Unlock()
	out := make([]string, 0, len(conflict))
	for k := range conflict {
		out = append(out, k)
	}
	sort.Strings(out)
	return out
}

// LoadConflicts preloads branch call sites.
func LoadConflicts(keys []string) {
	confMu.Lock()
	defer confMu.Unlock()
	for _, k := range keys {
		conflict[k] = struct{}{}
	}
}

// ResetConflicts forgets all learned call sites (replay starts from the
// recorded set).
func ResetConflicts() {
	confMu.Lock()
	defer confMu.Unlock()
	conflict = map[string]struct{}{}
}

// keyOf caches the label of a PC. Caller holds confMu.
func keyOf(pc uintptr) string {
	k, ok := pcKey[pc]
	if !ok {
		k = pcLabel(pc)
		pcKey[pc] = k
	}
	return k
}

// ConflictSites lists the learned branch call sites.
func ConflictSites() []string { return ConflictKeys() }

func pcLabel(pc uintptr) string {
	if pc == 0 {
		return "?"
	}
	f := runtime.FuncForPC(pc - 1)
	if f == nil {
		return "?"
	}
	file, line := f.FileLine(pc - 1)
	if i := strings.LastIndex(file, "/"); i >= 0 {
		file = file[i+1:]
	}
	name := f.Name()
	if i := strings.LastIndex(name, "."); i >= 0 {
		name = name[i+1:]
	}
	return fmt.Sprintf("%s:%d(%s)", file, line, name)
}

func inFocus(pc uintptr) bool {
	if Focus == nil {
		return true
	}
	if v, ok := focusCache[pc]; ok {
		return v
	}
	f := runtime.FuncForPC(pc - 1)
	v := false
	if f != nil {
		n := f.Name()
		for _, s := range Focus {
			if strings.Contains(n, s) {
				v = true
			}
		}
	}
	focusCache[pc] = v
	return v
}

func bit(id int) uint64 {
	if id > 63 {
		id = 63
	}
	return 1 << uint(id)
}

// callerPC returns the PC of the instrumented call site: the caller of the
// shim method that called Point.
func callerPC() uintptr {
	var pcs [1]uintptr
	// 0 Callers, 1 callerPC, 2 Point, 3 shim method, 4 call site
	if runtime.Callers(4, pcs[:]) == 0 {
		return 0
	}
	return pcs[0]
}

func (s *Sched) signal() {
	select {
	case s.wake <- struct{}{}:
	default:
	}
}

// record notes an access for conflict detection; returns whether pc is (now)
// a branch call site. Caller holds s.mu.
func (s *Sched) record(t *Thread, kind OpKind, obj unsafe.Pointer, pc uintptr) bool {
	a := s.acc[obj]
	if a == nil {
		a = &access{pcs: map[uintptr]struct{}{}}
		s.acc[obj] = a
	}
	if kind.isWrite() {
		a.writers |= bit(t.id)
	} else {
		a.readers |= bit(t.id)
	}
	a.pcs[pc] = struct{}{}
	all := a.readers | a.writers
	conflicting := a.writers != 0 && all&(all-1) != 0 // >=2 threads, >=1 writer
	confMu.Lock()
	defer confMu.Unlock()
	if conflicting {
		for p := range a.pcs {
			k := keyOf(p)
			if _, ok := conflict[k]; !ok {
				conflict[k] = struct{}{}
				confGrew = true
			}
		}
	}
	if AllPoints {
		return true
	}
	_, ok := conflict[keyOf(pc)]
	return ok && inFocus(pc)
}

func (s *Sched) lockFree(kind OpKind, obj unsafe.Pointer) bool {
	m := s.mus[obj]
	if m == nil {
		return true
	}
	if kind == OpRLock {
		return m.writer == 0
	}
	return m.writer == 0 && m.readers == 0
}

func (s *Sched) applyLock(t *Thread, kind OpKind, obj unsafe.Pointer) {
	m := s.mus[obj]
	if m == nil {
		m = &muState{}
		s.mus[obj] = m
	}
	if kind == OpRLock {
		m.readers++
	} else {
		m.writer = t.id + 1
	}
	m.pc = t.pc
}

// Held lists the locks that are held according to the lock model (call after
// Run): a lock still held when every thread has finished was leaked.
func (s *Sched) Held() []string {
	s.mu.Lock()
	defer s.mu.Unlock()
	var out []string
	for _, m := range s.mus {
		if m.writer != 0 || m.readers > 0 {
			who := "readers"
			if m.writer != 0 {
				who = s.threads[m.writer-1].name
			}
			out = append(out, fmt.Sprintf("%s@%s", who, pcLabel(m.pc)))
		}
	}
	sort.Strings(out)
	return out
}

// describeDeadlock fills DeadlockInfo: every lock-waiting thread, the lock's
// last acquisition site and holder. Caller holds s.mu.
func (s *Sched) describeDeadlock() {
	s.DeadlockInfo = nil
	for _, t := range s.threads {
		if t.state != stParked || (t.kind != OpLock && t.kind != OpRLock) {
			continue
		}
		m := s.mus[t.obj]
		holder := "?"
		if m != nil {
			if m.writer != 0 {
				holder = s.threads[m.writer-1].name
			} else if m.readers > 0 {
				holder = fmt.Sprintf("%d reader(s)", m.readers)
			}
			holder += " (acquired at " + pcLabel(m.pc) + ")"
		}
		s.DeadlockInfo = append(s.DeadlockInfo, fmt.Sprintf("%s waits for %s at %s held by %s", t.name, t.kind, pcLabel(t.pc), holder))
	}
}

// Alive lists the controlled threads that have not finished (call after Run).
func (s *Sched) Alive() []string {
	s.mu.Lock()
	defer s.mu.Unlock()
	var out []string
	for _, t := range s.threads {
		if t.state != stDone {
			out = append(out, t.name)
		}
	}
	return out
}

// Point is called by the shims before a sync operation on obj.
func Point(kind OpKind, obj unsafe.Pointer) {
	s := S
	if s == nil || s.free {
		if D != nil && (kind == OpLock || kind == OpRLock || kind == OpTryLock) {
			delayPoint(kind.String() + "@" + delayKey(callerPC()))
		}
		return
	}
	pc := callerPC()
	s.mu.Lock()
	t := s.cur
	if t == nil || s.free {
		s.mu.Unlock()
		return
	}
	s.PointsHit++
	branch := s.record(t, kind, obj, pc)
	isLock := kind == OpLock || kind == OpRLock
	if !branch && (!isLock || s.lockFree(kind, obj)) {
		if isLock {
			t.pc = pc
			s.applyLock(t, kind, obj)
		}
		s.mu.Unlock()
		return
	}
	t.kind, t.obj, t.pc, t.label = kind, obj, pc, ""
	t.state = stParked
	s.mu.Unlock()
	s.signal()
	<-t.resume
}

// Yield is an explicit schedule point for harness code (always parks).
func Yield(label string) {
	s := S
	if s == nil || s.free {
		return
	}
	s.mu.Lock()
	t := s.cur
	if t == nil || s.free {
		s.mu.Unlock()
		return
	}
	t.kind, t.obj, t.pc, t.label = OpYield, nil, 0, label
	t.state = stParked
	s.mu.Unlock()
	s.signal()
	<-t.resume
}

// Acquired is called after a successful TryLock / TryRLock.
func Acquired(obj unsafe.Pointer, read bool) {
	s := S
	if s == nil || s.free {
		return
	}
	s.mu.Lock()
	if t := s.cur; t != nil {
		k := OpLock
		if read {
			k = OpRLock
		}
		s.applyLock(t, k, obj)
	}
	s.mu.Unlock()
}

// Released is called after an Unlock / RUnlock.
func Released(obj unsafe.Pointer, read bool) {
	s := S
	if s == nil {
		return
	}
	s.mu.Lock()
	if m := s.mus[obj]; m != nil {
		if read {
			if m.readers > 0 {
				m.readers--
			}
		} else {
			m.writer = 0
		}
	}
	s.mu.Unlock()
}

// BeforeBlock marks the running thread as entering a native (durably
// blocking) wait: channel operation, select, sleep, WaitGroup.Wait.
func BeforeBlock() Token {
	s := S
	if s == nil || s.free {
		return nil
	}
	s.mu.Lock()
	defer s.mu.Unlock()
	t := s.cur
	if t == nil || s.free {
		return nil
	}
	t.state = stNative
	return t
}

// AfterBlock re-enters scheduler control after a native wait.
func AfterBlock(tok Token, label string) {
	t := (*Thread)(tok)
	s := S
	if t == nil || s == nil {
		return
	}
	s.mu.Lock()
	if s.free {
		s.mu.Unlock()
		return
	}
	t.kind, t.obj, t.pc, t.label = OpAfterBlock, nil, 0, label
	t.state = stParked
	s.mu.Unlock()
	s.signal()
	<-t.resume
}

// Go starts fn as a controlled daemon thread (or a plain goroutine in
// pass-through); used for the `go` statements of instrumented code: a run does
// not wait for daemon threads to finish, only for them to have nothing to do.
func Go(name string, fn func()) { spawn(name, fn, true) }

// GoMain starts a harness thread: the run lasts until all of them are done.
func GoMain(name string, fn func()) { spawn(name, fn, false) }

func spawn(name string, fn func(), daemon bool) {
	s := S
	if s == nil || s.free {
		if D != nil {
			go func() {
				delayPoint("go@" + name)
				fn()
			}()
			return
		}
		go fn()
		return
	}
	s.mu.Lock()
	if s.free {
		s.mu.Unlock()
		go fn()
		return
	}
	t := &Thread{id: len(s.threads), name: name, resume: make(chan struct{}), wokenBy: -1, daemon: daemon}
	if s.cur != nil {
		t.wokenBy = s.cur.id
		t.fresh = true
	}
	t.kind, t.label = OpStart, name
	t.state = stParked
	s.threads = append(s.threads, t)
	s.mu.Unlock()
	go func() {
		<-t.resume
		defer func() {
			if p := recover(); p != nil {
				// keep the innermost non-runtime frames for the report
				var pcs [24]uintptr
				n := runtime.Callers(3, pcs[:])
				var where []string
				fr := runtime.CallersFrames(pcs[:n])
				for {
					f, more := fr.Next()
					if !strings.HasPrefix(f.Function, "runtime.") && len(where) < 4 {
						file := f.File
						if i := strings.LastIndex(file, "/"); i >= 0 {
							file = file[i+1:]
						}
						where = append(where, fmt.Sprintf("%s:%d", file, f.Line))
					}
					if !more {
						break
					}
				}
				s.mu.Lock()
				s.Panics = append(s.Panics, fmt.Sprintf("%s: %v at %v", t.name, p, where))
				s.mu.Unlock()
			}
			s.mu.Lock()
			t.state = stDone
			s.mu.Unlock()
			s.signal()
		}()
		fn()
	}()
}

func (s *Sched) enabled(t *Thread) bool {
	if t.state != stParked {
		return false
	}
	if t.kind == OpLock || t.kind == OpRLock {
		return s.lockFree(t.kind, t.obj)
	}
	return true
}

func (t *Thread) describe() string {
	l := t.label
	if l == "" && t.pc != 0 {
		l = pcLabel(t.pc)
	}
	return fmt.Sprintf("%s/%s@%s", t.name, t.kind, l)
}

// Run executes body as thread "main" under the choice prefix inside the
// current synctest bubble and returns the finished scheduler. Choices beyond
// the prefix default to 0.
func Run(prefix []int, body func()) *Sched {
	s := &Sched{mus: map[unsafe.Pointer]*muState{}, acc: map[unsafe.Pointer]*access{},
		wake: make(chan struct{}, 1), prefix: prefix, last: -1, Horizon: time.Hour, MaxSteps: 200000}
	S = s
	GoMain("main", body)
	s.loop()
	// release everything: the rest (disposal) runs free
	s.mu.Lock()
	s.free = true
	s.cur = nil
	for _, t := range s.threads {
		if t.state == stParked {
			if s.Deadlock && (t.kind == OpLock || t.kind == OpRLock) && !s.lockFree(t.kind, t.obj) {
				// a thread of a detected deadlock stays parked (durably blocked):
				// released, it would block on the real mutex for good
				continue
			}
			t.state = stRunning
			close(t.resume)
		}
	}
	s.mu.Unlock()
	return s
}

// Detach uninstalls the scheduler (call after the bubble's cleanup).
func Detach() { S = nil }

func (s *Sched) next(n int, label func(i int) string) (int, bool) {
	c := 0
	if s.step < len(s.prefix) {
		c = s.prefix[s.step]
		if c >= n || c < 0 {
			s.Diverged = fmt.Sprintf("replay divergence at decision %d: choice %d of %d options", s.step, c, n)
			return 0, false
		}
	}
	s.step++
	return c, true
}

func (s *Sched) loop() {
	for {
		synctest.Wait()
		s.mu.Lock()
		s.cur = nil
		// wake-up causality: threads that were native before the last step and are parked now
		for _, t := range s.threads {
			if t.state == stParked && t.kind == OpAfterBlock && !t.fresh && t.wokenBy == -2 {
				t.wokenBy = s.last
				t.fresh = true
			}
		}
		var en []*Thread
		allDone, anyNative, anyLockWait := true, false, false
		for _, t := range s.threads {
			if t.state != stDone && !t.daemon {
				allDone = false
			}
			if t.state == stNative && !t.daemon {
				anyNative = true
			}
			if s.enabled(t) {
				en = append(en, t)
			} else if t.state == stParked {
				anyLockWait = true
			}
		}
		if allDone && len(en) == 0 {
			s.mu.Unlock()
			return
		}
		if len(en) == 0 {
			s.mu.Unlock()
			if !anyNative {
				s.Deadlock = anyLockWait
				if anyLockWait {
					s.mu.Lock()
					s.describeDeadlock()
					s.mu.Unlock()
				}
				return
			}
			// only timers (or nothing) can make progress: let fake time advance
			select {
			case <-s.wake:
				continue
			case <-time.After(s.Horizon):
			}
			s.mu.Lock()
			for _, t := range s.threads {
				if t.state == stNative && !t.daemon {
					s.Stuck = append(s.Stuck, t.name)
				}
				if t.state == stParked {
					s.Deadlock = true
				}
			}
			if s.Deadlock {
				s.describeDeadlock()
			}
			s.mu.Unlock()
			return
		}
		// canonical order: zero-cost continuation first
		var cont []*Thread
		var lastT *Thread
		if s.last >= 0 {
			lastT = s.threads[s.last]
		}
		if lastT != nil && s.enabled(lastT) {
			cont = []*Thread{lastT}
		} else if lastT != nil {
			for _, t := range en {
				if t.fresh && t.wokenBy == s.last {
					cont = append(cont, t)
				}
			}
		}
		free := len(cont)
		ordered := en
		if free == 0 {
			// a true blocking switch (or threads woken by the clock): with many
			// service goroutines "every enabled thread is free" explodes, so
			// only the canonical successor (lowest thread id) is free and any
			// other choice costs one deviation
			free = 1
			if AllFreeOnBlock {
				free = len(en)
			}
		} else {
			ordered = append([]*Thread{}, cont...)
			for _, t := range en {
				isCont := false
				for _, c := range cont {
					if c == t {
						isCont = true
					}
				}
				if !isCont {
					ordered = append(ordered, t)
				}
			}
		}
		if !AllFreeOnBlock && free > 1 {
			// several threads woken by the last step: the first one is the
			// default, running any other first costs a deviation
			free = 1
		}
		if DeviateTo != nil && len(ordered) > free {
			// declared under-approximation: costly switches only to the named
			// (harness) threads; zero-cost continuations are always kept
			kept := ordered[:free:free]
			for _, t := range ordered[free:] {
				for _, n := range DeviateTo {
					if t.name == n || (strings.HasSuffix(n, "*") && strings.Contains(t.name, strings.TrimSuffix(n, "*"))) {
						kept = append(kept, t)
						break
					}
				}
			}
			ordered = kept
		}
		choice := 0
		if len(ordered) > 1 {
			var ok bool
			choice, ok = s.next(len(ordered), nil)
			if !ok {
				s.mu.Unlock()
				return
			}
		}
		t := ordered[choice]
		if len(ordered) > 1 {
			s.Trace = append(s.Trace, Decision{N: len(ordered), Free: free, Chosen: choice, Label: t.describe()})
		}
		if t.kind == OpLock || t.kind == OpRLock {
			s.applyLock(t, t.kind, t.obj)
		}
		t.state = stRunning
		t.fresh = false
		s.cur = t
		s.last = t.id
		// remember who is native now: anything that becomes parked at
		// AfterBlock before the next decision was woken by this step
		for _, o := range s.threads {
			if o.state == stNative {
				o.wokenBy = -2
			}
		}
		s.StepsRun++
		over := s.StepsRun > s.MaxSteps
		s.mu.Unlock()
		if over {
			s.Overrun = true
			return
		}
		select {
		case <-s.wake:
		default:
		}
		t.resume <- struct{}{}
	}
}

// Choose is an environment choice point with n options; option 0 is the
// default. Works with or without controlled threads (ENV engine).
func Choose(label string, n int) int {
	s := S
	if s == nil || n <= 1 {
		return 0
	}
	s.mu.Lock()
	defer s.mu.Unlock()
	if s.Diverged != "" {
		return 0
	}
	c, ok := s.next(n, nil)
	if !ok {
		return 0
	}
	s.Trace = append(s.Trace, Decision{N: n, Free: 1, Chosen: c, Env: true, Label: fmt.Sprintf("%s=%d", label, c)})
	return c
}

// NewEnv installs a scheduler used only for environment choices (no
// controlled threads, no bubble needed).
func NewEnv(prefix []int) *Sched {
	s := &Sched{mus: map[unsafe.Pointer]*muState{}, acc: map[unsafe.Pointer]*access{},
		wake: make(chan struct{}, 1), prefix: prefix, last: -1, free: true}
	S = s
	return s
}
