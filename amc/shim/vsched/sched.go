// Package vsched is the controlled cooperative scheduler used by the /verif
// model-checking harnesses. It exists only in the build overlay (virtual
// package github.com/pancsta/asyncmachine-go/pkg/x/vsched). Instrumented code
// calls Point before every sync operation; exactly one controlled thread runs
// between two schedule points; quiescence is detected with synctest.Wait, so a
// run must happen inside a testing/synctest bubble.
//
// With no scheduler installed (S == nil) every entry point passes through, so
// an instrumented build behaves like the original one.
package vsched

import (
	"fmt"
	"runtime"
	"sort"
	"strings"
	stdsync "sync"
	"testing/synctest"
	"time"
	"unsafe"
)

type OpKind uint8

const (
	OpStart OpKind = iota
	OpLock
	OpRLock
	OpTryLock
	OpLoad
	OpStore // any atomic write / rmw
	OpAfterBlock
	OpYield
)

func (k OpKind) String() string {
	return [...]string{"start", "lock", "rlock", "trylock", "load", "store", "wake", "yield"}[k]
}

func (k OpKind) isWrite() bool { return k == OpLock || k == OpTryLock || k == OpStore }

type threadState uint8

const (
	stRunning threadState = iota
	stParked
	stNative
	stDone
)

type Thread struct {
	id      int
	name    string
	state   threadState
	kind    OpKind
	obj     unsafe.Pointer
	pc      uintptr
	label   string
	resume  chan struct{}
	wokenBy int  // thread whose step woke this one from a native wait (-1 none)
	fresh   bool // woken and not yet run since
	daemon  bool // service goroutine of the code under test: the run does not wait for it
}

// Token identifies the thread across a native blocking operation.
type Token *Thread

type muState struct {
	writer  int // thread id+1
	readers int
	pc      uintptr // call site of the last acquisition
}

// Decision is one recorded choice: a scheduling decision among Enabled
// threads, or an environment choice (Env) among N options.
type Decision struct {
	N      int    // number of options
	Free   int    // the first Free options cost 0, the others cost 1
	Chosen int    // index taken
	Env    bool   // environment choice (Choose/MapOrder), not a thread switch
	Label  string // readable description of the option taken
}

// Sched is one controlled execution.
type Sched struct {
	mu      stdsync.Mutex
	threads []*Thread
	mus     map[unsafe.Pointer]*muState
	wake    chan struct{}
	free    bool
	prefix  []int
	step    int
	Trace   []Decision
	cur     *Thread
	last    int

	// results
	Deadlock  bool     // no enabled thread while some thread is parked on a lock
	Stuck     []string // threads still natively blocked at the horizon
	Diverged  string   // replay divergence (harness error)
	Horizon   time.Duration
	MaxSteps  int
	Overrun   bool     // MaxSteps exceeded
	Panics    []string // panics that escaped a controlled thread
	StepsRun  int
	PointsHit int

	// conflict tracking for this run: object -> accessors
	acc map[unsafe.Pointer]*access
}

type access struct {
	readers, writers uint64 // bitmask of thread ids (ids >= 64 share bit 63)
	pcs              map[uintptr]struct{}
}

// S is the installed scheduler (nil = pass-through).
var S *Sched

// ---- global, cross-run state: the conflict set (call-site PCs that are
// branch points) ----

var (
	confMu   stdsync.Mutex
	conflict = map[uintptr]struct{}{}
	confGrew bool
	// AllPoints disables conflict reduction: every point parks.
	AllPoints bool
	// Focus, when non-nil, restricts branch points to call sites whose
	// function name contains one of the substrings (declared under-approximation).
	Focus      []string
	focusCache = map[uintptr]bool{}
)

// ConflictSize returns the number of branch call sites learned so far.
func ConflictSize() int { confMu.Lock(); defer confMu.Unlock(); return len(conflict) }

// ConflictGrew reports (and clears) whether the conflict set grew since the last call.
func ConflictGrew() bool {
	confMu.Lock()
	defer confMu.Unlock()
	g := confGrew
	confGrew = false
	return g
}

// ConflictPCs returns the learned branch call sites (sorted PCs).
func ConflictPCs() []uint64 {
	confMu.Lock()
	defer confMu.Unlock()
	out := make([]uint64, 0, len(conflict))
	for pc := range conflict {
		out = append(out, uint64(pc))
	}
	sort.Slice(out, func(i, j int) bool { return out[i] < out[j] })
	return out
}

// LoadConflicts preloads branch call sites (same binary => same PCs).
func LoadConflicts(pcs []uint64) {
	confMu.Lock()
	defer confMu.Unlock()
	for _, pc := range pcs {
		conflict[uintptr(pc)] = struct{}{}
	}
}

// ConflictSites lists the learned branch call sites as file:line.
func ConflictSites() []string {
	confMu.Lock()
	defer confMu.Unlock()
	var out []string
	for pc := range conflict {
		out = append(out, pcLabel(pc))
	}
	sort.Strings(out)
	return out
}

func pcLabel(pc uintptr) string {
	if pc == 0 {
		return "?"
	}
	f := runtime.FuncForPC(pc - 1)
	if f == nil {
		return "?"
	}
	file, line := f.FileLine(pc - 1)
	if i := strings.LastIndex(file, "/"); i >= 0 {
		file = file[i+1:]
	}
	name := f.Name()
	if i := strings.LastIndex(name, "."); i >= 0 {
		name = name[i+1:]
	}
	return fmt.Sprintf("%s:%d(%s)", file, line, name)
}

func inFocus(pc uintptr) bool {
	if Focus == nil {
		return true
	}
	if v, ok := focusCache[pc]; ok {
		return v
	}
	f := runtime.FuncForPC(pc - 1)
	v := false
	if f != nil {
		n := f.Name()
		for _, s := range Focus {
			if strings.Contains(n, s) {
				v = true
			}
		}
	}
	focusCache[pc] = v
	return v
}

func bit(id int) uint64 {
	if id > 63 {
		id = 63
	}
	return 1 << uint(id)
}

// callerPC returns the PC of the instrumented call site: the caller of the
// shim method that called Point.
func callerPC() uintptr {
	var pcs [1]uintptr
	// 0 Callers, 1 callerPC, 2 Point, 3 shim method, 4 call site
	if runtime.Callers(4, pcs[:]) == 0 {
		return 0
	}
	return pcs[0]
}

func (s *Sched) signal() {
	select {
	case s.wake <- struct{}{}:
	default:
	}
}

// record notes an access for conflict detection; returns whether pc is (now)
// a branch call site. Caller holds s.mu.
func (s *Sched) record(t *Thread, kind OpKind, obj unsafe.Pointer, pc uintptr) bool {
	a := s.acc[obj]
	if a == nil {
		a = &access{pcs: map[uintptr]struct{}{}}
		s.acc[obj] = a
	}
	if kind.isWrite() {
		a.writers |= bit(t.id)
	} else {
		a.readers |= bit(t.id)
	}
	a.pcs[pc] = struct{}{}
	all := a.readers | a.writers
	conflicting := a.writers != 0 && all&(all-1) != 0 // >=2 threads, >=1 writer
	confMu.Lock()
	defer confMu.Unlock()
	if conflicting {
		for p := range a.pcs {
			if _, ok := conflict[p]; !ok {
				conflict[p] = struct{}{}
				confGrew = true
			}
		}
	}
	if AllPoints {
		return true
	}
	_, ok := conflict[pc]
	return ok && inFocus(pc)
}

func (s *Sched) lockFree(kind OpKind, obj unsafe.Pointer) bool {
	m := s.mus[obj]
	if m == nil {
		return true
	}
	if kind == OpRLock {
		return m.writer == 0
	}
	return m.writer == 0 && m.readers == 0
}

func (s *Sched) applyLock(t *Thread, kind OpKind, obj unsafe.Pointer) {
	m := s.mus[obj]
	if m == nil {
		m = &muState{}
		s.mus[obj] = m
	}
	if kind == OpRLock {
		m.readers++
	} else {
		m.writer = t.id + 1
	}
	m.pc = t.pc
}

// Held lists the locks that are held according to the lock model (call after
// Run): a lock still held when every thread has finished was leaked.
func (s *Sched) Held() []string {
	s.mu.Lock()
	defer s.mu.Unlock()
	var out []string
	for _, m := range s.mus {
		if m.writer != 0 || m.readers > 0 {
			who := "readers"
			if m.writer != 0 {
				who = s.threads[m.writer-1].name
			}
			out = append(out, fmt.Sprintf("%s@%s", who, pcLabel(m.pc)))
		}
	}
	sort.Strings(out)
	return out
}

// Point is called by the shims before a sync operation on obj.
func Point(kind OpKind, obj unsafe.Pointer) {
	s := S
	if s == nil || s.free {
		return
	}
	pc := callerPC()
	s.mu.Lock()
	t := s.cur
	if t == nil || s.free {
		s.mu.Unlock()
		return
	}
	s.PointsHit++
	branch := s.record(t, kind, obj, pc)
	isLock := kind == OpLock || kind == OpRLock
	if !branch && (!isLock || s.lockFree(kind, obj)) {
		if isLock {
			t.pc = pc
			s.applyLock(t, kind, obj)
		}
		s.mu.Unlock()
		return
	}
	t.kind, t.obj, t.pc, t.label = kind, obj, pc, ""
	t.state = stParked
	s.mu.Unlock()
	s.signal()
	<-t.resume
}

// Yield is an explicit schedule point for harness code (always parks).
func Yield(label string) {
	s := S
	if s == nil || s.free {
		return
	}
	s.mu.Lock()
	t := s.cur
	if t == nil || s.free {
		s.mu.Unlock()
		return
	}
	t.kind, t.obj, t.pc, t.label = OpYield, nil, 0, label
	t.state = stParked
	s.mu.Unlock()
	s.signal()
	<-t.resume
}

// Acquired is called after a successful TryLock / TryRLock.
func Acquired(obj unsafe.Pointer, read bool) {
	s := S
	if s == nil || s.free {
		return
	}
	s.mu.Lock()
	if t := s.cur; t != nil {
		k := OpLock
		if read {
			k = OpRLock
		}
		s.applyLock(t, k, obj)
	}
	s.mu.Unlock()
}

// Released is called after an Unlock / RUnlock.
func Released(obj unsafe.Pointer, read bool) {
	s := S
	if s == nil {
		return
	}
	s.mu.Lock()
	if m := s.mus[obj]; m != nil {
		if read {
			if m.readers > 0 {
				m.readers--
			}
		} else {
			m.writer = 0
		}
	}
	s.mu.Unlock()
}

// BeforeBlock marks the running thread as entering a native (durably
// blocking) wait: channel operation, select, sleep, WaitGroup.Wait.
func BeforeBlock() Token {
	s := S
	if s == nil || s.free {
		return nil
	}
	s.mu.Lock()
	defer s.mu.Unlock()
	t := s.cur
	if t == nil || s.free {
		return nil
	}
	t.state = stNative
	return t
}

// AfterBlock re-enters scheduler control after a native wait.
func AfterBlock(tok Token, label string) {
	t := (*Thread)(tok)
	s := S
	if t == nil || s == nil {
		return
	}
	s.mu.Lock()
	if s.free {
		s.mu.Unlock()
		return
	}
	t.kind, t.obj, t.pc, t.label = OpAfterBlock, nil, 0, label
	t.state = stParked
	s.mu.Unlock()
	s.signal()
	<-t.resume
}

// Go starts fn as a controlled daemon thread (or a plain goroutine in
// pass-through); used for the `go` statements of instrumented code: a run does
// not wait for daemon threads to finish, only for them to have nothing to do.
func Go(name string, fn func()) { spawn(name, fn, true) }

// GoMain starts a harness thread: the run lasts until all of them are done.
func GoMain(name string, fn func()) { spawn(name, fn, false) }

func spawn(name string, fn func(), daemon bool) {
	s := S
	if s == nil || s.free {
		go fn()
		return
	}
	s.mu.Lock()
	if s.free {
		s.mu.Unlock()
		go fn()
		return
	}
	t := &Thread{id: len(s.threads), name: name, resume: make(chan struct{}), wokenBy: -1, daemon: daemon}
	if s.cur != nil {
		t.wokenBy = s.cur.id
		t.fresh = true
	}
	t.kind, t.label = OpStart, name
	t.state = stParked
	s.threads = append(s.threads, t)
	s.mu.Unlock()
	go func() {
		<-t.resume
		defer func() {
			if p := recover(); p != nil {
				s.mu.Lock()
				s.Panics = append(s.Panics, fmt.Sprintf("%s: %v", t.name, p))
				s.mu.Unlock()
			}
			s.mu.Lock()
			t.state = stDone
			s.mu.Unlock()
			s.signal()
		}()
		fn()
	}()
}

func (s *Sched) enabled(t *Thread) bool {
	if t.state != stParked {
		return false
	}
	if t.kind == OpLock || t.kind == OpRLock {
		return s.lockFree(t.kind, t.obj)
	}
	return true
}

func (t *Thread) describe() string {
	l := t.label
	if l == "" && t.pc != 0 {
		l = pcLabel(t.pc)
	}
	return fmt.Sprintf("%s/%s@%s", t.name, t.kind, l)
}

// Run executes body as thread "main" under the choice prefix inside the
// current synctest bubble and returns the finished scheduler. Choices beyond
// the prefix default to 0.
func Run(prefix []int, body func()) *Sched {
	s := &Sched{mus: map[unsafe.Pointer]*muState{}, acc: map[unsafe.Pointer]*access{},
		wake: make(chan struct{}, 1), prefix: prefix, last: -1, Horizon: time.Hour, MaxSteps: 200000}
	S = s
	GoMain("main", body)
	s.loop()
	// release everything: the rest (disposal) runs free
	s.mu.Lock()
	s.free = true
	s.cur = nil
	for _, t := range s.threads {
		if t.state == stParked {
			t.state = stRunning
			close(t.resume)
		}
	}
	s.mu.Unlock()
	return s
}

// Detach uninstalls the scheduler (call after the bubble's cleanup).
func Detach() { S = nil }

func (s *Sched) next(n int, label func(i int) string) (int, bool) {
	c := 0
	if s.step < len(s.prefix) {
		c = s.prefix[s.step]
		if c >= n || c < 0 {
			s.Diverged = fmt.Sprintf("replay divergence at decision %d: choice %d of %d options", s.step, c, n)
			return 0, false
		}
	}
	s.step++
	return c, true
}

func (s *Sched) loop() {
	for {
		synctest.Wait()
		s.mu.Lock()
		s.cur = nil
		// wake-up causality: threads that were native before the last step and are parked now
		for _, t := range s.threads {
			if t.state == stParked && t.kind == OpAfterBlock && !t.fresh && t.wokenBy == -2 {
				t.wokenBy = s.last
				t.fresh = true
			}
		}
		var en []*Thread
		allDone, anyNative, anyLockWait := true, false, false
		for _, t := range s.threads {
			if t.state != stDone && !t.daemon {
				allDone = false
			}
			if t.state == stNative && !t.daemon {
				anyNative = true
			}
			if s.enabled(t) {
				en = append(en, t)
			} else if t.state == stParked {
				anyLockWait = true
			}
		}
		if allDone && len(en) == 0 {
			s.mu.Unlock()
			return
		}
		if len(en) == 0 {
			s.mu.Unlock()
			if !anyNative {
				s.Deadlock = anyLockWait
				return
			}
			// only timers (or nothing) can make progress: let fake time advance
			select {
			case <-s.wake:
				continue
			case <-time.After(s.Horizon):
			}
			s.mu.Lock()
			for _, t := range s.threads {
				if t.state == stNative && !t.daemon {
					s.Stuck = append(s.Stuck, t.name)
				}
				if t.state == stParked {
					s.Deadlock = true
				}
			}
			s.mu.Unlock()
			return
		}
		// canonical order: zero-cost continuation first
		var cont []*Thread
		var lastT *Thread
		if s.last >= 0 {
			lastT = s.threads[s.last]
		}
		if lastT != nil && s.enabled(lastT) {
			cont = []*Thread{lastT}
		} else if lastT != nil {
			for _, t := range en {
				if t.fresh && t.wokenBy == s.last {
					cont = append(cont, t)
				}
			}
		}
		free := len(cont)
		ordered := en
		if free == 0 {
			free = len(en)
		} else {
			ordered = append([]*Thread{}, cont...)
			for _, t := range en {
				isCont := false
				for _, c := range cont {
					if c == t {
						isCont = true
					}
				}
				if !isCont {
					ordered = append(ordered, t)
				}
			}
		}
		choice := 0
		if len(ordered) > 1 {
			var ok bool
			choice, ok = s.next(len(ordered), nil)
			if !ok {
				s.mu.Unlock()
				return
			}
		}
		t := ordered[choice]
		if len(ordered) > 1 {
			s.Trace = append(s.Trace, Decision{N: len(ordered), Free: free, Chosen: choice, Label: t.describe()})
		}
		if t.kind == OpLock || t.kind == OpRLock {
			s.applyLock(t, t.kind, t.obj)
		}
		t.state = stRunning
		t.fresh = false
		s.cur = t
		s.last = t.id
		// remember who is native now: anything that becomes parked at
		// AfterBlock before the next decision was woken by this step
		for _, o := range s.threads {
			if o.state == stNative {
				o.wokenBy = -2
			}
		}
		s.StepsRun++
		over := s.StepsRun > s.MaxSteps
		s.mu.Unlock()
		if over {
			s.Overrun = true
			return
		}
		select {
		case <-s.wake:
		default:
		}
		t.resume <- struct{}{}
	}
}

// Choose is an environment choice point with n options; option 0 is the
// default. Works with or without controlled threads (ENV engine).
func Choose(label string, n int) int {
	s := S
	if s == nil || n <= 1 {
		return 0
	}
	s.mu.Lock()
	defer s.mu.Unlock()
	if s.Diverged != "" {
		return 0
	}
	c, ok := s.next(n, nil)
	if !ok {
		return 0
	}
	s.Trace = append(s.Trace, Decision{N: n, Free: 1, Chosen: c, Env: true, Label: fmt.Sprintf("%s=%d", label, c)})
	return c
}

// NewEnv installs a scheduler used only for environment choices (no
// controlled threads, no bubble needed).
func NewEnv(prefix []int) *Sched {
	s := &Sched{mus: map[unsafe.Pointer]*muState{}, acc: map[unsafe.Pointer]*access{},
		wake: make(chan struct{}, 1), prefix: prefix, last: -1, free: true}
	S = s
	return s
}
