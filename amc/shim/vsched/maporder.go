package vsched

import (
	"fmt"
	"iter"
	"sort"
)

// permutation options for n keys: all n! permutations for n <= 4, otherwise
// identity, reversal and the n-1 non-trivial rotations (the orders Go's runtime
// produces are rotations of a bucket order).
func permCount(n int) int {
	switch {
	case n <= 1:
		return 1
	case n == 2:
		return 2
	case n == 3:
		return 6
	case n == 4:
		return 24
	}
	return n + 1
}

func applyPerm[K any](keys []K, c int) []K {
	n := len(keys)
	if c == 0 || n <= 1 {
		return keys
	}
	out := make([]K, 0, n)
	if n <= 4 {
		// c-th permutation in lexicographic order (factorial number system)
		rest := append([]K{}, keys...)
		f := 1
		for i := 2; i < n; i++ {
			f *= i
		}
		for i := n - 1; i >= 0; i-- {
			idx := 0
			if f > 0 {
				idx = c / f
				c = c % f
			}
			out = append(out, rest[idx])
			rest = append(rest[:idx], rest[idx+1:]...)
			if i > 0 {
				f /= i
			}
		}
		return out
	}
	if c == n { // reversal
		for i := n - 1; i >= 0; i-- {
			out = append(out, keys[i])
		}
		return out
	}
	// rotation by c
	out = append(out, keys[c:]...)
	out = append(out, keys[:c]...)
	return out
}

// MapOrder returns the keys of m in the order chosen by the environment:
// choice 0 is the canonical (sorted) order. Without a scheduler the native
// (random) iteration order is returned.
func MapOrder[M ~map[K]V, K comparable, V any](label string, m M) []K {
	keys := make([]K, 0, len(m))
	for k := range m {
		keys = append(keys, k)
	}
	if S == nil || len(keys) <= 1 {
		return keys
	}
	sort.Slice(keys, func(i, j int) bool { return fmt.Sprint(keys[i]) < fmt.Sprint(keys[j]) })
	c := Choose("maporder:"+label, permCount(len(keys)))
	return applyPerm(keys, c)
}

// MapKeys replaces maps.Keys.
func MapKeys[M ~map[K]V, K comparable, V any](label string, m M) iter.Seq[K] {
	return func(yield func(K) bool) {
		for _, k := range MapOrder(label, m) {
			if _, ok := m[k]; !ok {
				continue
			}
			if !yield(k) {
				return
			}
		}
	}
}

// MapValues replaces maps.Values.
func MapValues[M ~map[K]V, K comparable, V any](label string, m M) iter.Seq[V] {
	return func(yield func(V) bool) {
		for _, k := range MapOrder(label, m) {
			v, ok := m[k]
			if !ok {
				continue
			}
			if !yield(v) {
				return
			}
		}
	}
}
