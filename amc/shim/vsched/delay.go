package vsched

// Delay mode: deterministic delay-bounded scheduling for code that runs with
// real goroutines inside a testing/synctest bubble (no controlled threads).
// Every instrumented lock acquisition and goroutine start is a delay point,
// identified by its source position and the number of earlier hits at that
// position ("file:line(func)#k"). A plan maps points to a (fake) sleep taken
// right before the operation; with an empty plan nothing is delayed. Sleeping
// a goroutine by even a microsecond of fake time lets everything else in the
// bubble run to quiescence first, so one delayed point = one deviation from
// the default schedule.

import (
	stdsync "sync"
	stdatomic "sync/atomic"
	"time"
)

type DelayPlan struct {
	mu     stdsync.Mutex
	Delays map[string]time.Duration
	// Active gates recording and delaying (the harness turns it on after the
	// set-up phase).
	Active bool
	// MaxHits: only the first MaxHits hits of a position are listed in Seen
	// (default 4).
	MaxHits int
	counts map[string]int
	// Seen lists the points hit while active, in order of first hit.
	Seen []string
	// Skipped counts, per position, the hits not considered because a lock
	// was held (optional; set to a non-nil map to collect).
	Skipped map[string]int
	// Applied lists the planned delays that were really taken.
	Applied []string
}

// D is the installed plan (nil: delay mode off).
var D *DelayPlan

func NewDelayPlan(delays map[string]time.Duration) *DelayPlan {
	d := &DelayPlan{Delays: delays, counts: map[string]int{}}
	delayHeld.Store(0)
	D = d
	return d
}

func DelayOff() { D = nil }

func (d *DelayPlan) SetActive(a bool) {
	d.mu.Lock()
	d.Active = a
	d.mu.Unlock()
}

var delayHeld stdatomic.Int64

// DelayHeld counts the instrumented locks currently held by anyone (delay
// mode only; informational). Waiting for an instrumented lock is a durable
// fake-time wait in delay mode (see vsync), so a goroutine may be put to sleep
// while locks are held without stopping the bubble's clock.
func DelayHeld(n int64) {
	if D != nil {
		delayHeld.Add(n)
	}
}

func delayPoint(label string) {
	d := D
	if d == nil {
		return
	}
	d.mu.Lock()
	if !d.Active {
		d.mu.Unlock()
		return
	}
	k := d.counts[label]
	d.counts[label] = k + 1
	key := label + "#" + itoa(k)
	mh := d.MaxHits
	if mh == 0 {
		mh = 4
	}
	if k < mh { // later hits of the same position are not branched on
		d.Seen = append(d.Seen, key)
	}
	dl, ok := d.Delays[key]
	if ok {
		d.Applied = append(d.Applied, key)
	}
	d.mu.Unlock()
	if ok && dl > 0 {
		time.Sleep(dl)
	}
}

func itoa(n int) string {
	if n == 0 {
		return "0"
	}
	var b [20]byte
	i := len(b)
	for n > 0 {
		i--
		b[i] = byte('0' + n%10)
		n /= 10
	}
	return string(b[i:])
}

var delayKeyMu stdsync.Mutex

// delayKey is keyOf guarded for concurrent callers (delay mode has no
// scheduler lock).
func delayKey(pc uintptr) string {
	delayKeyMu.Lock()
	defer delayKeyMu.Unlock()
	return keyOf(pc)
}
