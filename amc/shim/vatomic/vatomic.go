// Package vatomic is a drop-in for "sync/atomic" whose operations are schedule
// points of vsched (overlay-only package).
package vatomic

import (
	stdatomic "sync/atomic"
	"unsafe"

	"github.com/pancsta/asyncmachine-go/pkg/x/vsched"
)

const (
	ld = vsched.OpLoad
	st = vsched.OpStore
)

type Bool struct{ v stdatomic.Bool }

func (x *Bool) Load() bool     { vsched.Point(ld, unsafe.Pointer(x)); return x.v.Load() }
func (x *Bool) Store(val bool) { vsched.Point(st, unsafe.Pointer(x)); x.v.Store(val) }
func (x *Bool) Swap(val bool) bool {
	vsched.Point(st, unsafe.Pointer(x))
	return x.v.Swap(val)
}
func (x *Bool) CompareAndSwap(o, n bool) bool {
	vsched.Point(st, unsafe.Pointer(x))
	return x.v.CompareAndSwap(o, n)
}

type Int32 struct{ v stdatomic.Int32 }

func (x *Int32) Load() int32       { vsched.Point(ld, unsafe.Pointer(x)); return x.v.Load() }
func (x *Int32) Store(val int32)   { vsched.Point(st, unsafe.Pointer(x)); x.v.Store(val) }
func (x *Int32) Add(d int32) int32 { vsched.Point(st, unsafe.Pointer(x)); return x.v.Add(d) }
func (x *Int32) Swap(val int32) int32 {
	vsched.Point(st, unsafe.Pointer(x))
	return x.v.Swap(val)
}
func (x *Int32) CompareAndSwap(o, n int32) bool {
	vsched.Point(st, unsafe.Pointer(x))
	return x.v.CompareAndSwap(o, n)
}

type Int64 struct{ v stdatomic.Int64 }

func (x *Int64) Load() int64       { vsched.Point(ld, unsafe.Pointer(x)); return x.v.Load() }
func (x *Int64) Store(val int64)   { vsched.Point(st, unsafe.Pointer(x)); x.v.Store(val) }
func (x *Int64) Add(d int64) int64 { vsched.Point(st, unsafe.Pointer(x)); return x.v.Add(d) }
func (x *Int64) Swap(val int64) int64 {
	vsched.Point(st, unsafe.Pointer(x))
	return x.v.Swap(val)
}
func (x *Int64) CompareAndSwap(o, n int64) bool {
	vsched.Point(st, unsafe.Pointer(x))
	return x.v.CompareAndSwap(o, n)
}

type Uint32 struct{ v stdatomic.Uint32 }

func (x *Uint32) Load() uint32        { vsched.Point(ld, unsafe.Pointer(x)); return x.v.Load() }
func (x *Uint32) Store(val uint32)    { vsched.Point(st, unsafe.Pointer(x)); x.v.Store(val) }
func (x *Uint32) Add(d uint32) uint32 { vsched.Point(st, unsafe.Pointer(x)); return x.v.Add(d) }
func (x *Uint32) Swap(val uint32) uint32 {
	vsched.Point(st, unsafe.Pointer(x))
	return x.v.Swap(val)
}
func (x *Uint32) CompareAndSwap(o, n uint32) bool {
	vsched.Point(st, unsafe.Pointer(x))
	return x.v.CompareAndSwap(o, n)
}

type Uint64 struct{ v stdatomic.Uint64 }

func (x *Uint64) Load() uint64        { vsched.Point(ld, unsafe.Pointer(x)); return x.v.Load() }
func (x *Uint64) Store(val uint64)    { vsched.Point(st, unsafe.Pointer(x)); x.v.Store(val) }
func (x *Uint64) Add(d uint64) uint64 { vsched.Point(st, unsafe.Pointer(x)); return x.v.Add(d) }
func (x *Uint64) Swap(val uint64) uint64 {
	vsched.Point(st, unsafe.Pointer(x))
	return x.v.Swap(val)
}
func (x *Uint64) CompareAndSwap(o, n uint64) bool {
	vsched.Point(st, unsafe.Pointer(x))
	return x.v.CompareAndSwap(o, n)
}

type Pointer[T any] struct{ v stdatomic.Pointer[T] }

func (x *Pointer[T]) Load() *T     { vsched.Point(ld, unsafe.Pointer(x)); return x.v.Load() }
func (x *Pointer[T]) Store(val *T) { vsched.Point(st, unsafe.Pointer(x)); x.v.Store(val) }
func (x *Pointer[T]) Swap(val *T) *T {
	vsched.Point(st, unsafe.Pointer(x))
	return x.v.Swap(val)
}
func (x *Pointer[T]) CompareAndSwap(o, n *T) bool {
	vsched.Point(st, unsafe.Pointer(x))
	return x.v.CompareAndSwap(o, n)
}

type Value struct{ v stdatomic.Value }

func (x *Value) Load() any     { vsched.Point(ld, unsafe.Pointer(x)); return x.v.Load() }
func (x *Value) Store(val any) { vsched.Point(st, unsafe.Pointer(x)); x.v.Store(val) }
func (x *Value) Swap(val any) any {
	vsched.Point(st, unsafe.Pointer(x))
	return x.v.Swap(val)
}
func (x *Value) CompareAndSwap(o, n any) bool {
	vsched.Point(st, unsafe.Pointer(x))
	return x.v.CompareAndSwap(o, n)
}

// function forms
func AddInt32(p *int32, d int32) int32 {
	vsched.Point(st, unsafe.Pointer(p))
	return stdatomic.AddInt32(p, d)
}
func AddInt64(p *int64, d int64) int64 {
	vsched.Point(st, unsafe.Pointer(p))
	return stdatomic.AddInt64(p, d)
}
func AddUint32(p *uint32, d uint32) uint32 {
	vsched.Point(st, unsafe.Pointer(p))
	return stdatomic.AddUint32(p, d)
}
func AddUint64(p *uint64, d uint64) uint64 {
	vsched.Point(st, unsafe.Pointer(p))
	return stdatomic.AddUint64(p, d)
}
func LoadInt32(p *int32) int32 { vsched.Point(ld, unsafe.Pointer(p)); return stdatomic.LoadInt32(p) }
func LoadInt64(p *int64) int64 { vsched.Point(ld, unsafe.Pointer(p)); return stdatomic.LoadInt64(p) }
func LoadUint32(p *uint32) uint32 {
	vsched.Point(ld, unsafe.Pointer(p))
	return stdatomic.LoadUint32(p)
}
func LoadUint64(p *uint64) uint64 {
	vsched.Point(ld, unsafe.Pointer(p))
	return stdatomic.LoadUint64(p)
}
func StoreInt32(p *int32, v int32) { vsched.Point(st, unsafe.Pointer(p)); stdatomic.StoreInt32(p, v) }
func StoreInt64(p *int64, v int64) { vsched.Point(st, unsafe.Pointer(p)); stdatomic.StoreInt64(p, v) }
func StoreUint32(p *uint32, v uint32) {
	vsched.Point(st, unsafe.Pointer(p))
	stdatomic.StoreUint32(p, v)
}
func StoreUint64(p *uint64, v uint64) {
	vsched.Point(st, unsafe.Pointer(p))
	stdatomic.StoreUint64(p, v)
}
func CompareAndSwapInt32(p *int32, o, n int32) bool {
	vsched.Point(st, unsafe.Pointer(p))
	return stdatomic.CompareAndSwapInt32(p, o, n)
}
func CompareAndSwapInt64(p *int64, o, n int64) bool {
	vsched.Point(st, unsafe.Pointer(p))
	return stdatomic.CompareAndSwapInt64(p, o, n)
}
func CompareAndSwapUint32(p *uint32, o, n uint32) bool {
	vsched.Point(st, unsafe.Pointer(p))
	return stdatomic.CompareAndSwapUint32(p, o, n)
}
func CompareAndSwapUint64(p *uint64, o, n uint64) bool {
	vsched.Point(st, unsafe.Pointer(p))
	return stdatomic.CompareAndSwapUint64(p, o, n)
}
