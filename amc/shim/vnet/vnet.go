// Package vnet is an in-memory replacement for the parts of package net that
// pkg/rpc and pkg/node use (the instrumenter rewrites their `import "net"`).
// Listeners and connections are plain channel/mutex objects, so they work
// inside testing/synctest bubbles (a blocked Read or Accept is durably
// blocked) and the harness owns the network: it can list links, hold the
// bytes of one direction back, release them, and cut a link.
//
// Types are aliases of the real net types, so third-party code (cmux, rpc2)
// that takes a net.Listener / net.Conn is unaffected.
package vnet

import (
	"context"
	"errors"
	"fmt"
	"io"
	"net"
	"os"
	"strconv"
	"sync"
	"sync/atomic"
	"time"
)

type (
	Conn                = net.Conn
	Listener            = net.Listener
	Addr                = net.Addr
	Error               = net.Error
	OpError             = net.OpError
	IPNet               = net.IPNet
	IP                  = net.IP
	TCPAddr             = net.TCPAddr
	AddrError           = net.AddrError
	UnknownNetworkError = net.UnknownNetworkError
)

var ErrClosed = net.ErrClosed

func SplitHostPort(hostport string) (string, string, error) { return net.SplitHostPort(hostport) }
func JoinHostPort(host, port string) string                 { return net.JoinHostPort(host, port) }
func InterfaceAddrs() ([]net.Addr, error)                   { return net.InterfaceAddrs() }
func ParseIP(s string) net.IP                               { return net.ParseIP(s) }

// ---- registry ----

var (
	mu        sync.Mutex
	listeners = map[string]*listener{} // by port
	// allListeners: every listener created since Reset (also closed ones)
	allListeners []*listener
	links        []*Link
	nextPort     atomic.Int64
	// DialHook, when set, decides every dial: return an error to refuse it.
	DialHook func(addr string) error
)

func init() { nextPort.Store(40000) }

// Reset forgets every listener and link (call between executions; ports keep
// counting so that addresses of parallel executions never collide).
func Reset() {
	mu.Lock()
	defer mu.Unlock()
	listeners = map[string]*listener{}
	allListeners = nil
	links = nil
	DialHook = nil
}

// CloseAll ends an execution from inside its bubble: every listener is closed
// (and from now on keeps returning the error, so that well-behaved accept loops
// end), every link is cut. Goroutines blocked on the in-memory network then
// return instead of staying behind in a finished bubble.
func CloseAll() {
	mu.Lock()
	ls := append([]*listener(nil), allListeners...)
	lk := append([]*Link(nil), links...)
	mu.Unlock()
	for _, l := range ls {
		l.Close()
		l.shutdownOnce.Do(func() { close(l.shutdown) })
	}
	for _, k := range lk {
		k.Cut()
	}
}

// Links returns the links created so far, in creation order.
func Links() []*Link {
	mu.Lock()
	defer mu.Unlock()
	return append([]*Link(nil), links...)
}

// LinksTo returns the live links dialed to the given address.
func LinksTo(addr string) []*Link {
	var out []*Link
	for _, l := range Links() {
		if l.To == addr && !l.IsCut() {
			out = append(out, l)
		}
	}
	return out
}

type addr struct{ s string }

func (a addr) Network() string { return "tcp" }
func (a addr) String() string  { return a.s }

func portOf(address string) (string, error) {
	_, p, err := net.SplitHostPort(address)
	if err != nil {
		return "", err
	}
	return p, nil
}

// ---- listener ----

type listener struct {
	a      addr
	port   string
	ch     chan net.Conn
	closed chan struct{}
	once   sync.Once
	// reported: the "closed" error has been returned once
	reported atomic.Bool
	// shutdown is closed by CloseAll: Accept then returns the error every time
	shutdown     chan struct{}
	shutdownOnce sync.Once
}

func (l *listener) Accept() (net.Conn, error) {
	select {
	case c := <-l.ch:
		return c, nil
	case <-l.closed:
		// the real net package returns the error on every call; a caller that
		// retries in a tight loop (rpc.Mux.accept does) would spin for ever
		// and never let a bubble finish, so only the first call after Close
		// returns, later ones block for good
		if l.reported.Swap(true) {
			// ... until the harness ends the execution (CloseAll)
			<-l.shutdown
		}
		return nil, &net.OpError{Op: "accept", Net: "tcp", Addr: l.a, Err: net.ErrClosed}
	}
}

func (l *listener) Close() error {
	l.once.Do(func() {
		close(l.closed)
		mu.Lock()
		if listeners[l.port] == l {
			delete(listeners, l.port)
		}
		mu.Unlock()
	})
	return nil
}

func (l *listener) Addr() net.Addr { return l.a }

type ListenConfig struct {
	KeepAlive time.Duration
}

func (ListenConfig) Listen(ctx context.Context, network, address string) (net.Listener, error) {
	return Listen(network, address)
}

func Listen(network, address string) (net.Listener, error) {
	host, port, err := net.SplitHostPort(address)
	if err != nil {
		return nil, &net.OpError{Op: "listen", Net: network, Err: err}
	}
	if host == "" {
		host = "127.0.0.1"
	}
	if host == "localhost" {
		host = "127.0.0.1"
	}
	if port == "" || port == "0" {
		port = strconv.FormatInt(nextPort.Add(1), 10)
	}
	mu.Lock()
	defer mu.Unlock()
	if _, ok := listeners[port]; ok {
		return nil, &net.OpError{Op: "listen", Net: network, Err: errors.New("bind: address already in use")}
	}
	l := &listener{a: addr{net.JoinHostPort(host, port)}, port: port, ch: make(chan net.Conn, 64), closed: make(chan struct{}), shutdown: make(chan struct{})}
	listeners[port] = l
	allListeners = append(allListeners, l)
	return l, nil
}

// ---- dial ----

type Dialer struct {
	Timeout   time.Duration
	KeepAlive time.Duration
}

func (d *Dialer) DialContext(ctx context.Context, network, address string) (net.Conn, error) {
	return dial(ctx, network, address)
}

func (d *Dialer) Dial(network, address string) (net.Conn, error) {
	return dial(context.Background(), network, address)
}

func Dial(network, address string) (net.Conn, error) {
	return dial(context.Background(), network, address)
}

func DialTimeout(network, address string, _ time.Duration) (net.Conn, error) {
	return dial(context.Background(), network, address)
}

func dial(ctx context.Context, network, address string) (net.Conn, error) {
	if err := ctx.Err(); err != nil {
		return nil, &net.OpError{Op: "dial", Net: network, Err: err}
	}
	port, err := portOf(address)
	if err != nil {
		return nil, &net.OpError{Op: "dial", Net: network, Err: err}
	}
	mu.Lock()
	hook := DialHook
	l := listeners[port]
	mu.Unlock()
	if hook != nil {
		if err := hook(address); err != nil {
			return nil, &net.OpError{Op: "dial", Net: network, Err: err}
		}
	}
	if l == nil {
		return nil, &net.OpError{Op: "dial", Net: network, Err: errors.New("connect: connection refused")}
	}
	cport := strconv.FormatInt(nextPort.Add(1), 10)
	lk := &Link{To: l.a.s, From: net.JoinHostPort("127.0.0.1", cport)}
	lk.c2s = newPipe()
	lk.s2c = newPipe()
	cc := &conn{lk: lk, r: lk.s2c, w: lk.c2s, local: addr{lk.From}, remote: l.a}
	sc := &conn{lk: lk, r: lk.c2s, w: lk.s2c, local: l.a, remote: addr{lk.From}}
	lk.Client, lk.Server = cc, sc
	mu.Lock()
	links = append(links, lk)
	lk.Index = len(links) - 1
	mu.Unlock()
	select {
	case l.ch <- sc:
	case <-l.closed:
		return nil, &net.OpError{Op: "dial", Net: network, Err: errors.New("connect: connection refused")}
	}
	return cc, nil
}

// ---- link / pipe ----

// Link is one established connection: two byte pipes.
type Link struct {
	Index          int
	From, To       string
	Client, Server net.Conn
	c2s, s2c       *pipe
	cut            atomic.Bool
}

// Cut breaks the link: both ends see EOF / a write error, like a dropped TCP
// connection.
func (l *Link) Cut() {
	l.cut.Store(true)
	l.c2s.close()
	l.s2c.close()
}

func (l *Link) IsCut() bool { return l.cut.Load() }

// HoldToClient / HoldToServer keep written bytes of one direction invisible
// to the reader until Release*.
func (l *Link) HoldToClient()    { l.s2c.hold(true) }
func (l *Link) ReleaseToClient() { l.s2c.hold(false) }
func (l *Link) HoldToServer()    { l.c2s.hold(true) }
func (l *Link) ReleaseToServer() { l.c2s.hold(false) }

// PendingToClient is the number of written, not yet read bytes.
func (l *Link) PendingToClient() int { return l.s2c.pending() }
func (l *Link) PendingToServer() int { return l.c2s.pending() }

type pipe struct {
	mu     sync.Mutex
	buf    []byte
	held   bool
	closed bool
	wake   chan struct{} // cap 1
}

func newPipe() *pipe { return &pipe{wake: make(chan struct{}, 1)} }

func (p *pipe) signal() {
	select {
	case p.wake <- struct{}{}:
	default:
	}
}

func (p *pipe) close() {
	p.mu.Lock()
	p.closed = true
	p.mu.Unlock()
	p.signal()
}

func (p *pipe) hold(h bool) {
	p.mu.Lock()
	p.held = h
	p.mu.Unlock()
	if !h {
		p.signal()
	}
}

func (p *pipe) pending() int {
	p.mu.Lock()
	defer p.mu.Unlock()
	return len(p.buf)
}

func (p *pipe) write(b []byte) (int, error) {
	p.mu.Lock()
	if p.closed {
		p.mu.Unlock()
		return 0, io.ErrClosedPipe
	}
	p.buf = append(p.buf, b...)
	p.mu.Unlock()
	p.signal()
	return len(b), nil
}

// read blocks until data, close or deadline.
func (p *pipe) read(b []byte, deadline <-chan time.Time, done <-chan struct{}) (int, error) {
	for {
		p.mu.Lock()
		if len(p.buf) > 0 && !p.held {
			n := copy(b, p.buf)
			p.buf = p.buf[n:]
			more := len(p.buf) > 0
			p.mu.Unlock()
			if more {
				p.signal()
			}
			return n, nil
		}
		if p.closed {
			p.mu.Unlock()
			return 0, io.EOF
		}
		p.mu.Unlock()
		select {
		case <-p.wake:
		case <-deadline:
			return 0, os.ErrDeadlineExceeded
		case <-done:
			return 0, io.EOF
		}
	}
}

type conn struct {
	lk            *Link
	r, w          *pipe
	local, remote addr
	mu            sync.Mutex
	rdl           time.Time
	closed        chan struct{}
	once          sync.Once
}

func (c *conn) done() chan struct{} {
	c.mu.Lock()
	defer c.mu.Unlock()
	if c.closed == nil {
		c.closed = make(chan struct{})
	}
	return c.closed
}

func (c *conn) Read(b []byte) (int, error) {
	c.mu.Lock()
	dl := c.rdl
	c.mu.Unlock()
	var ch <-chan time.Time
	if !dl.IsZero() {
		t := time.NewTimer(time.Until(dl))
		defer t.Stop()
		ch = t.C
	}
	n, err := c.r.read(b, ch, c.done())
	if err != nil && err != io.EOF {
		return n, &net.OpError{Op: "read", Net: "tcp", Addr: c.remote, Err: err}
	}
	return n, err
}

func (c *conn) Write(b []byte) (int, error) {
	select {
	case <-c.done():
		return 0, &net.OpError{Op: "write", Net: "tcp", Addr: c.remote, Err: net.ErrClosed}
	default:
	}
	n, err := c.w.write(b)
	if err != nil {
		return n, &net.OpError{Op: "write", Net: "tcp", Addr: c.remote, Err: fmt.Errorf("write: broken pipe")}
	}
	return n, nil
}

// Close closes this end; the peer reads EOF after draining.
func (c *conn) Close() error {
	c.once.Do(func() {
		close(c.done())
		c.w.close()
		c.r.close()
	})
	return nil
}

func (c *conn) LocalAddr() net.Addr  { return c.local }
func (c *conn) RemoteAddr() net.Addr { return c.remote }

func (c *conn) SetDeadline(t time.Time) error { return c.SetReadDeadline(t) }
func (c *conn) SetReadDeadline(t time.Time) error {
	c.mu.Lock()
	c.rdl = t
	c.mu.Unlock()
	return nil
}
func (c *conn) SetWriteDeadline(time.Time) error { return nil }
