// Package vsync is a drop-in for "sync" whose blocking operations are schedule
// points of vsched (overlay-only package). The real primitive is kept inside
// so memory ordering and the race detector see the program's own
// synchronisation.
package vsync

import (
	stdsync "sync"
	"time"
	stdatomic "sync/atomic"
	"unsafe"

	"github.com/pancsta/asyncmachine-go/pkg/x/vsched"
)

type (
	Locker = stdsync.Locker
	Map    = stdsync.Map
	Pool   = stdsync.Pool
)

type Mutex struct{ mu stdsync.Mutex }

func (m *Mutex) Lock() {
	vsched.Point(vsched.OpLock, unsafe.Pointer(m))
	if vsched.D != nil {
		// delay mode runs real goroutines in a bubble: waiting for a mutex
		// is made a durable (fake-time) wait, or a holder that sleeps would
		// stop the bubble's clock
		for !m.mu.TryLock() {
			time.Sleep(time.Microsecond)
		}
	} else {
		m.mu.Lock()
	}
	vsched.DelayHeld(1)
}

func (m *Mutex) Unlock() {
	vsched.DelayHeld(-1)
	m.mu.Unlock()
	vsched.Released(unsafe.Pointer(m), false)
}

func (m *Mutex) TryLock() bool {
	vsched.Point(vsched.OpTryLock, unsafe.Pointer(m))
	ok := m.mu.TryLock()
	if ok {
		vsched.DelayHeld(1)
		vsched.Acquired(unsafe.Pointer(m), false)
	}
	return ok
}

type RWMutex struct{ mu stdsync.RWMutex }

func (m *RWMutex) Lock() {
	vsched.Point(vsched.OpLock, unsafe.Pointer(m))
	if vsched.D != nil {
		for !m.mu.TryLock() {
			time.Sleep(time.Microsecond)
		}
	} else {
		m.mu.Lock()
	}
	vsched.DelayHeld(1)
}

func (m *RWMutex) Unlock() {
	vsched.DelayHeld(-1)
	m.mu.Unlock()
	vsched.Released(unsafe.Pointer(m), false)
}

func (m *RWMutex) RLock() {
	vsched.Point(vsched.OpRLock, unsafe.Pointer(m))
	if vsched.D != nil {
		for !m.mu.TryRLock() {
			time.Sleep(time.Microsecond)
		}
	} else {
		m.mu.RLock()
	}
	vsched.DelayHeld(1)
}

func (m *RWMutex) RUnlock() {
	vsched.DelayHeld(-1)
	m.mu.RUnlock()
	vsched.Released(unsafe.Pointer(m), true)
}

func (m *RWMutex) TryLock() bool {
	vsched.Point(vsched.OpTryLock, unsafe.Pointer(m))
	ok := m.mu.TryLock()
	if ok {
		vsched.DelayHeld(1)
		vsched.Acquired(unsafe.Pointer(m), false)
	}
	return ok
}

func (m *RWMutex) TryRLock() bool {
	vsched.Point(vsched.OpTryLock, unsafe.Pointer(m))
	ok := m.mu.TryRLock()
	if ok {
		vsched.DelayHeld(1)
		vsched.Acquired(unsafe.Pointer(m), true)
	}
	return ok
}

func (m *RWMutex) RLocker() Locker { return (*rlocker)(m) }

type rlocker RWMutex

func (r *rlocker) Lock()   { (*RWMutex)(r).RLock() }
func (r *rlocker) Unlock() { (*RWMutex)(r).RUnlock() }

// WaitGroup: Wait is a native (durably blocking) wait.
type WaitGroup struct{ wg stdsync.WaitGroup }

func (w *WaitGroup) Add(n int) { w.wg.Add(n) }
func (w *WaitGroup) Done()     { w.wg.Done() }
func (w *WaitGroup) Wait() {
	tok := vsched.BeforeBlock()
	w.wg.Wait()
	vsched.AfterBlock(tok, "WaitGroup.Wait")
}
func (w *WaitGroup) Go(f func()) {
	w.wg.Add(1)
	vsched.Go("WaitGroup.Go", func() {
		defer w.wg.Done()
		f()
	})
}

// Once with a scheduled mutex (sync.Once's internal mutex is not a durable
// block inside a bubble).
type Once struct {
	done stdatomic.Bool
	m    Mutex
}

func (o *Once) Do(f func()) {
	if o.done.Load() {
		return
	}
	o.m.Lock()
	defer o.m.Unlock()
	if !o.done.Load() {
		defer o.done.Store(true)
		f()
	}
}

func OnceFunc(f func()) func() {
	var o Once
	return func() { o.Do(f) }
}

func OnceValue[T any](f func() T) func() T {
	var o Once
	var v T
	return func() T { o.Do(func() { v = f() }); return v }
}
