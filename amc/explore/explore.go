// Package explore: stateless depth-first exploration of choice sequences with
// iterative deviation bounding (the shared core of the SCHED and ENV engines).
//
// An execution is a pure function of its choice prefix: run(prefix) replays
// the prefix and takes option 0 at every later decision, returning the full
// list of decisions it met. A decision has N options of which the first Free
// cost nothing; any other option costs one deviation. Explore enumerates
// every execution whose total cost is <= bound, each exactly once.
package explore

import (
	"fmt"
	"hash/fnv"
	"time"
)

// Decision mirrors vsched.Decision (kept separate so that ENV-only harnesses
// need no instrumented build).
type Decision struct {
	N, Free, Chosen int
	Env             bool
	Label           string
}

// Exec is the result of one execution.
type Exec struct {
	Trace []Decision
	// Obs is the harness' observation of the run (canonical string).
	Obs string
	// Err is a harness error (replay divergence, watchdog): aborts exploration.
	Err string
	// Aux is passed through to the visitor.
	Aux any
}

type Stats struct {
	Execs        int64
	Decisions    int64
	MaxDepth     int
	Outcomes     map[string]int64
	TraceHashes  map[uint64]struct{}
	BoundDone    int  // highest bound fully completed (-1 none)
	BudgetHit    bool // stopped on the wall-clock budget
	Restarts     int
	FirstChoices []int
}

type Options struct {
	Bound int
	// Shard/NShard: the subtrees below the first decision that has >1
	// options... are dealt round-robin on the index of the explored execution
	// at depth <= ShardDepth. Simpler and order-independent: an execution
	// whose prefix (first ShardDepth non-default... ) see shardOf.
	Shard, NShard int
	Deadline      time.Time
	// Restart is polled after every execution; when it returns true the
	// current bound is restarted from scratch (conflict set grew).
	Restart func() bool
	// Visit is called for every execution with its prefix.
	Visit func(prefix []int, e *Exec)
}

func cost(d Decision, alt int) int {
	if alt < d.Free {
		return 0
	}
	return 1
}

func hashTrace(tr []Decision) uint64 {
	h := fnv.New64a()
	for _, d := range tr {
		fmt.Fprintf(h, "%d/%d;", d.Chosen, d.N)
	}
	return h.Sum64()
}

// Explore runs the iterative-bounding DFS: bounds 0..opt.Bound. Sharding: the
// level-1 alternatives (children of the default execution) and the default
// execution itself are dealt out modulo NShard; every shard re-runs the
// default execution (needed to discover the alternatives) but only shard 0
// reports it to Visit.
func Explore(run func(prefix []int) *Exec, opt Options) (*Stats, string) {
	st := &Stats{Outcomes: map[string]int64{}, TraceHashes: map[uint64]struct{}{}, BoundDone: -1}
	if opt.NShard < 1 {
		opt.NShard = 1
	}
	for b := 0; b <= opt.Bound; b++ {
	restart:
		st2 := &Stats{Outcomes: map[string]int64{}, TraceHashes: map[uint64]struct{}{}}
		var herr string
		aborted := false
		subtree := 0
		var rec func(prefix []int, spent int, depth int)
		rec = func(prefix []int, spent int, depth int) {
			if aborted || herr != "" {
				return
			}
			if !opt.Deadline.IsZero() && time.Now().After(opt.Deadline) {
				st.BudgetHit = true
				aborted = true
				return
			}
			e := run(prefix)
			if e.Err != "" {
				herr = e.Err
				return
			}
			if len(e.Trace) < len(prefix) {
				herr = fmt.Sprintf("replay divergence: prefix %v but only %d decisions met", prefix, len(e.Trace))
				return
			}
			for i := range prefix {
				if e.Trace[i].Chosen != prefix[i] {
					herr = fmt.Sprintf("replay divergence at %d: wanted %d got %d", i, prefix[i], e.Trace[i].Chosen)
					return
				}
			}
			report := depth > 0 || opt.Shard == 0
			if report {
				st2.Execs++
				st2.Decisions += int64(len(e.Trace))
				if len(e.Trace) > st2.MaxDepth {
					st2.MaxDepth = len(e.Trace)
				}
				st2.Outcomes[e.Obs]++
				st2.TraceHashes[hashTrace(e.Trace)] = struct{}{}
				if opt.Visit != nil {
					opt.Visit(prefix, e)
				}
			}
			if opt.Restart != nil && opt.Restart() {
				aborted = true
				st.Restarts++
				herr = "\x00restart"
				return
			}
			for i := len(prefix); i < len(e.Trace); i++ {
				d := e.Trace[i]
				for alt := 1; alt < d.N; alt++ {
					c := spent + costBefore(e.Trace, len(prefix), i) + cost(d, alt)
					if c > b {
						continue
					}
					if depth == 0 {
						mine := subtree%opt.NShard == opt.Shard
						subtree++
						if !mine {
							continue
						}
					}
					np := make([]int, i+1)
					for j := 0; j < i; j++ {
						np[j] = e.Trace[j].Chosen
					}
					np[i] = alt
					rec(np, c, depth+1)
					if aborted || herr != "" {
						return
					}
				}
			}
		}
		rec(nil, 0, 0)
		if herr == "\x00restart" {
			if st.Restarts > 200 {
				return st, "conflict set did not converge after 200 restarts"
			}
			goto restart
		}
		if herr != "" {
			return st, herr
		}
		// merge: bound b enumerates a superset of bound b-1; keep the last
		st.Execs, st.Decisions, st.MaxDepth = st2.Execs, st2.Decisions, st2.MaxDepth
		st.Outcomes, st.TraceHashes = st2.Outcomes, st2.TraceHashes
		if aborted {
			return st, ""
		}
		st.BoundDone = b
	}
	return st, ""
}

// costBefore: cost of the default choices taken between decision index from
// (inclusive) and to (exclusive) - defaults are option 0 which is always free,
// so this is 0; kept for clarity should the canonical order change.
func costBefore(tr []Decision, from, to int) int {
	c := 0
	for i := from; i < to; i++ {
		if tr[i].Chosen >= tr[i].Free {
			c++
		}
	}
	return c
}
