// Package schedkit glues vsched (overlay package), explore and kit together
// for the SCHED harnesses: one execution = one synctest bubble.
package schedkit

import (
	"encoding/json"
	"fmt"
	"os"
	"runtime"
	"strings"
	"testing"
	"testing/synctest"
	"time"

	"amc/explore"
	"amc/kit"

	"github.com/pancsta/asyncmachine-go/pkg/x/vsched"
)

// Run is one controlled execution.
type Run struct {
	S *vsched.Sched
	// Notes collected by the harness body / cleanup.
	Obs []string
	// Viol are violations detected by the harness oracle in this execution.
	Viol []Viol
	// Held: locks still held (per the lock model) when the run ended.
	Held []string
	// ThreadPanics: panics that escaped controlled threads.
	ThreadPanics []string
}

// IgnoreThreadPanics: do not turn escaped panics into violations (drivers for
// operations documented to panic).
var IgnoreThreadPanics bool

// Wedged reports whether touching the machine from cleanup could block for
// real: a deadlock was detected or a lock was leaked. Cleanup must then leave
// the machine alone (the bubble's leftover goroutines are abandoned).
func (r *Run) Wedged() bool { return r.S.Deadlock || len(r.Held) > 0 || len(r.S.Panics) > 0 }

type Viol struct{ Sig, Detail string }

func (r *Run) Observe(format string, a ...any) { r.Obs = append(r.Obs, fmt.Sprintf(format, a...)) }
func (r *Run) Violate(sig, format string, a ...any) {
	r.Viol = append(r.Viol, Viol{sig, fmt.Sprintf(format, a...)})
}

// Go starts a controlled harness thread and returns a join function that must
// be called from a controlled thread.
func Go(name string, fn func()) (join func()) {
	done := make(chan struct{})
	vsched.GoMain(name, func() {
		defer close(done)
		fn()
	})
	return func() {
		tok := vsched.BeforeBlock()
		<-done
		vsched.AfterBlock(tok, "join:"+name)
	}
}

// Wait blocks the controlled thread on ch (native wait, then re-enters
// scheduler control). Returns false if the timeout (fake time) passes first.
func Wait(ch <-chan struct{}, timeout time.Duration, label string) bool {
	tok := vsched.BeforeBlock()
	ok := true
	if timeout > 0 {
		select {
		case <-ch:
		case <-time.After(timeout):
			ok = false
		}
	} else {
		<-ch
	}
	vsched.AfterBlock(tok, label)
	return ok
}

// Sleep in fake time as a controlled thread.
func Sleep(d time.Duration) {
	tok := vsched.BeforeBlock()
	time.Sleep(d)
	vsched.AfterBlock(tok, "sleep")
}

var watchdogSecs = 120

// Once runs body under the choice prefix inside a fresh bubble. body runs as
// the controlled thread "main"; after it (and all controlled threads) finish
// or the scheduler gives up, cleanup runs uncontrolled inside the bubble and
// must make every goroutine exit.
func Once(t *testing.T, prefix []int, body func(r *Run), cleanup func(r *Run)) *explore.Exec {
	r := &Run{}
	ex := &explore.Exec{}
	wd := time.AfterFunc(time.Duration(watchdogSecs)*time.Second, func() {
		buf := make([]byte, 1<<20)
		n := runtime.Stack(buf, true)
		fmt.Fprintf(os.Stderr, "WATCHDOG: execution stuck in real time (non-durable block?) prefix=%v\n%s\n", prefix, buf[:n])
		rep := kit.NewReport(os.Getenv("AMC_PROPERTY"))
		rep.HarnessError("watchdog: execution stuck in real time, prefix=%v", prefix)
		rep.Write()
		os.Exit(3)
	})
	defer wd.Stop()
	func() {
		defer func() {
			if p := recover(); p != nil {
				msg := fmt.Sprint(p)
				if strings.Contains(msg, "deadlock") {
					r.Observe("bubble-deadlock")
					if len(r.Viol) == 0 {
						r.Violate("bubble-deadlock", "goroutines remained blocked after cleanup: %s", msg)
					}
				} else {
					ex.Err = "panic in execution: " + msg
				}
			}
		}()
		synctest.Test(t, func(t *testing.T) {
			r.S = vsched.Run(prefix, func() { body(r) })
			r.Held = r.S.Held()
			for _, p := range r.S.Panics {
				r.ThreadPanics = append(r.ThreadPanics, p)
				if !IgnoreThreadPanics {
					r.Violate("panic", "panic escaped a thread: %s", p)
				}
			}
			if cleanup != nil {
				cleanup(r)
			}
			vsched.Detach()
		})
	}()
	vsched.Detach()
	if r.S != nil {
		for _, d := range r.S.Trace {
			ex.Trace = append(ex.Trace, explore.Decision{N: d.N, Free: d.Free, Chosen: d.Chosen, Env: d.Env, Label: d.Label})
		}
		if r.S.Diverged != "" {
			ex.Err = r.S.Diverged
		}
		if r.S.Overrun {
			ex.Err = "step limit exceeded (livelock?)"
		}
	}
	ex.Obs = strings.Join(r.Obs, " | ")
	ex.Aux = r
	return ex
}

// Replay is the replay object of a SCHED violation.
type Replay struct {
	Driver  string   `json:"driver"`
	Params  any      `json:"params,omitempty"`
	Bound   int      `json:"bound"`
	Choices []int    `json:"choices"`
	Labels  []string `json:"labels"`
	Obs     string   `json:"obs"`
	// Conflicts is the set of branch call sites in force when the schedule
	// was recorded (choices index decisions, which depend on it).
	Conflicts []string `json:"conflicts"`
}

func Labels(e *explore.Exec) []string {
	var l []string
	for _, d := range e.Trace {
		m := ""
		if d.Chosen >= d.Free {
			m = "*"
		}
		l = append(l, fmt.Sprintf("%s%d/%d %s", m, d.Chosen, d.N, d.Label))
	}
	return l
}

// Init preloads the shared conflict set (AMC_CONFLICT_IN) so that all shards
// enumerate the same decision tree; call once per worker before exploring.
func Init(property string) {
	os.Setenv("AMC_PROPERTY", property)
	if p := os.Getenv("AMC_CONFLICT_IN"); p != "" {
		b, err := os.ReadFile(p)
		if err == nil {
			var keys []string
			if json.Unmarshal(b, &keys) == nil {
				vsched.LoadConflicts(keys)
			}
		}
	}
}

// Finish records the final conflict set in the report (the driver compares
// the shards' sets and re-runs them with the union until they agree).
func Finish(rep *kit.Report) {
	rep.Note("conflict_pcs", vsched.ConflictKeys())
}

// Driver is one closed program to explore.
type Driver struct {
	Name  string
	Bound map[string]int // per tier
	Body  func(r *Run)
	// Cleanup must leave no goroutine behind.
	Cleanup func(r *Run)
	// Check evaluates the end-of-run oracle (may add r.Viol); runs after cleanup.
	Check func(r *Run)
	// Params for replay files.
	Params any
	// AllowPanics: panics escaping threads are expected (documented) here.
	AllowPanics bool
	// DeviateTo restricts costly switches to these thread names per tier (nil =
	// unrestricted); a declared under-approximation, reported in the evidence.
	DeviateTo map[string][]string
}

// ExploreDriver explores one driver and feeds the report. Returns stats.
func ExploreDriver(t *testing.T, rep *kit.Report, d *Driver, prefixSig string) *explore.Stats {
	shard, nshard := kit.Shard()
	bound := d.Bound[kit.Tier()]
	vsched.DeviateTo = nil
	if d.DeviateTo != nil {
		vsched.DeviateTo = d.DeviateTo[kit.Tier()]
	}
	IgnoreThreadPanics = d.AllowPanics
	defer func() { vsched.DeviateTo = nil; IgnoreThreadPanics = false }()
	run := func(prefix []int) *explore.Exec {
		e := Once(t, prefix, d.Body, d.Cleanup)
		if e.Err == "" && d.Check != nil {
			d.Check(e.Aux.(*Run))
		}
		return e
	}
	deadline := time.Time{}
	if b := kit.Budget(); b > 0 {
		deadline = time.Now().Add(b - rep.Elapsed())
	}
	vsched.ConflictGrew()
	st, herr := explore.Explore(run, explore.Options{
		Bound: bound, Shard: shard, NShard: nshard, Deadline: deadline,
		Restart: vsched.ConflictGrew,
		Visit: func(prefix []int, e *explore.Exec) {
			r := e.Aux.(*Run)
			for _, v := range r.Viol {
				rep.Violate(prefixSig+d.Name+":"+v.Sig, v.Detail+" :: obs="+e.Obs,
					Replay{Driver: d.Name, Params: d.Params, Bound: bound, Choices: choices(e), Labels: Labels(e), Obs: e.Obs, Conflicts: vsched.ConflictKeys()})
			}
			if r.S != nil {
				rep.Add("points_hit", int64(r.S.PointsHit))
			}
		},
	})
	if herr != "" {
		rep.HarnessError("driver %s: %s", d.Name, herr)
	}
	rep.Add("traces", st.Execs)
	rep.Add("evaluations", st.Execs)
	rep.Add("transitions", st.Decisions+st.Execs)
	rep.Add("states", int64(len(st.TraceHashes)))
	for o := range st.Outcomes {
		rep.Distinct("outcomes", d.Name+"::"+o)
	}
	rep.Distinct("drivers", d.Name)
	if vsched.DeviateTo != nil {
		rep.Note("focus:"+d.Name, fmt.Sprintf("costly switches only to threads %v", vsched.DeviateTo))
	}
	rep.Note("driver:"+d.Name, fmt.Sprintf("bound=%d bound_done=%d execs=%d distinct_traces=%d outcomes=%d maxdepth=%d restarts=%d budget_hit=%v conflict_sites=%d",
		bound, st.BoundDone, st.Execs, len(st.TraceHashes), len(st.Outcomes), st.MaxDepth, st.Restarts, st.BudgetHit, vsched.ConflictSize()))
	if st.BoundDone < bound {
		rep.NotExhaustive(fmt.Sprintf("driver %s completed bound %d of %d", d.Name, st.BoundDone, bound))
	}
	if len(st.Outcomes) <= 1 && st.Execs > 1 && herr == "" {
		rep.Note("vacuity:"+d.Name, "single outcome over many schedules")
	}
	return st
}

func choices(e *explore.Exec) []int {
	c := make([]int, len(e.Trace))
	for i, d := range e.Trace {
		c[i] = d.Chosen
	}
	// trim trailing defaults
	n := len(c)
	for n > 0 && c[n-1] == 0 {
		n--
	}
	return c[:n]
}

// ReplayDriver re-runs one recorded schedule 3 times, checks determinism, prints the trace.
func ReplayDriver(t *testing.T, rep *kit.Report, d *Driver, rp Replay, prefixSig string) {
	vsched.DeviateTo = nil
	if d.DeviateTo != nil {
		vsched.DeviateTo = d.DeviateTo[kit.Tier()]
	}
	IgnoreThreadPanics = d.AllowPanics
	defer func() { vsched.DeviateTo = nil; IgnoreThreadPanics = false }()
	vsched.ResetConflicts()
	vsched.LoadConflicts(rp.Conflicts)
	var first string
	for i := 0; i < 3; i++ {
		e := Once(t, rp.Choices, d.Body, d.Cleanup)
		if e.Err != "" {
			rep.HarnessError("replay: %s", e.Err)
			return
		}
		if d.Check != nil {
			d.Check(e.Aux.(*Run))
		}
		if i == 0 {
			first = e.Obs
			fmt.Printf("replay driver=%s choices=%v\n", d.Name, rp.Choices)
			for _, l := range Labels(e) {
				fmt.Println("   ", l)
			}
			fmt.Println("  obs:", e.Obs)
			for _, v := range e.Aux.(*Run).Viol {
				fmt.Printf("  violation %s: %s\n", v.Sig, v.Detail)
				rep.Violate(prefixSig+d.Name+":"+v.Sig, v.Detail, rp)
			}
		} else if e.Obs != first {
			rep.HarnessError("replay not deterministic: %q vs %q", first, e.Obs)
		}
	}
	rep.Add("states", 1)
	rep.Add("transitions", 1)
	rep.Add("traces", 3)
}
