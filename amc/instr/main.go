// instr: source instrumenter producing a `go build -overlay` file.
//
//	instr -out DIR -repo /repo -shim SHIMDIR -inpkg INPKGDIR -features sync,go,chan,maprange
//	      -inject pkg/rpc,pkg/node [-stub 'pkg/node:(*bootstrap).StartState=file.go'] pkgdir...
//
// pkgdir is relative to -repo, or absolute (module cache) for third-party
// packages. The repository is never modified; rewritten files are written to
// DIR and mapped over the originals; the shim packages are mapped to virtual
// directories under <repo>/pkg/x/.
package main

import (
	"encoding/json"
	"flag"
	"fmt"
	"go/ast"
	"go/format"
	"go/parser"
	"go/token"
	"os"
	"path/filepath"
	"sort"
	"strconv"
	"strings"
)

const base = "github.com/pancsta/asyncmachine-go/pkg/x/"

var (
	warnings []string
	features = map[string]bool{}
	counter  int
	mapSites = map[string]bool{} // "file:line" of range statements over maps (from -mapsites)
)

type stubList []string

func (s *stubList) String() string     { return strings.Join(*s, ";") }
func (s *stubList) Set(v string) error { *s = append(*s, v); return nil }

func main() {
	out := flag.String("out", "", "output dir")
	repo := flag.String("repo", "/repo", "repo root")
	shim := flag.String("shim", "", "dir with vsched/vsync/vatomic sources")
	inpkg := flag.String("inpkg", "", "dir with in-package files to inject (<inpkg>/<pkgdir>/*.go)")
	feat := flag.String("features", "sync,go,chan", "comma separated: sync,go,chan,maprange")
	inject := flag.String("inject", "", "comma separated package dirs to inject in-package files into")
	mapsites := flag.String("mapsites", "", "file with one 'path/file.go:line' per map range statement (maprange feature)")
	strict := flag.Bool("strict", false, "fail on unsupported constructs")
	var stubs stubList
	flag.Var(&stubs, "stub", "pkgdir:FuncName=bodyfile (replace a function body)")
	substFile := flag.String("substfile", "", "JSON list of {file, old, new, why} textual substitutions")
	flag.Parse()
	if *substFile != "" {
		b, err := os.ReadFile(*substFile)
		if err != nil {
			fail("substfile: %v", err)
		}
		if err := json.Unmarshal(b, &substs); err != nil {
			fail("substfile: %v", err)
		}
	}
	for _, f := range strings.Split(*feat, ",") {
		if f != "" {
			features[f] = true
		}
	}
	if *mapsites != "" {
		b, err := os.ReadFile(*mapsites)
		if err != nil {
			fail("mapsites: %v", err)
		}
		for _, l := range strings.Fields(string(b)) {
			mapSites[l] = true
		}
	}
	overlay := map[string]string{}
	if err := os.MkdirAll(*out, 0o755); err != nil {
		fail("%v", err)
	}

	// virtual shim packages
	for _, p := range []string{"vsched", "vsync", "vatomic", "vnet"} {
		files, _ := filepath.Glob(filepath.Join(*shim, p, "*.go"))
		for _, f := range files {
			overlay[filepath.Join(*repo, "pkg/x", p, filepath.Base(f))] = f
		}
	}

	stubMap := map[string]map[string]string{} // pkgdir -> func -> bodyfile
	for _, s := range stubs {
		i := strings.Index(s, ":")
		j := strings.LastIndex(s, "=")
		if i < 0 || j < i {
			fail("bad -stub %q", s)
		}
		d, fn, bf := s[:i], s[i+1:j], s[j+1:]
		if stubMap[d] == nil {
			stubMap[d] = map[string]string{}
		}
		stubMap[d][fn] = bf
	}

	nfiles := 0
	for _, dir := range flag.Args() {
		abs := dir
		if !filepath.IsAbs(dir) {
			abs = filepath.Join(*repo, dir)
		}
		files, _ := filepath.Glob(filepath.Join(abs, "*.go"))
		sort.Strings(files)
		if len(files) == 0 {
			fail("no go files in %s", abs)
		}
		for _, f := range files {
			if strings.HasSuffix(f, "_test.go") {
				continue
			}
			src, changed := instrument(f, dir, stubMap[dir])
			if !changed {
				continue
			}
			dst := filepath.Join(*out, strings.NewReplacer("/", "_", "@", "_").Replace(strings.TrimPrefix(dir, "/"))+"__"+filepath.Base(f))
			if err := os.WriteFile(dst, src, 0o644); err != nil {
				fail("%v", err)
			}
			overlay[f] = dst
			nfiles++
		}
		for fn := range stubMap[dir] {
			if !stubbed[dir+":"+fn] {
				fail("stub target %s:%s not found", dir, fn)
			}
		}
	}

	for _, sb := range substs {
		if !sb.used {
			fail("subst for %s: file not among the instrumented packages", sb.File)
		}
	}

	// injected in-package files
	for _, dir := range strings.Split(*inject, ",") {
		if dir == "" {
			continue
		}
		files, _ := filepath.Glob(filepath.Join(*inpkg, dir, "*.go"))
		if len(files) == 0 {
			fail("nothing to inject for %s", dir)
		}
		for _, f := range files {
			overlay[filepath.Join(*repo, dir, filepath.Base(f))] = f
		}
	}

	js, _ := json.MarshalIndent(map[string]any{"Replace": overlay}, "", " ")
	if err := os.WriteFile(filepath.Join(*out, "overlay.json"), js, 0o644); err != nil {
		fail("%v", err)
	}
	for _, w := range warnings {
		fmt.Fprintln(os.Stderr, "instr: WARN", w)
	}
	if *strict && len(warnings) > 0 {
		os.Exit(1)
	}
	fmt.Printf("instr: %d files rewritten, %d overlay entries, %d warnings\n", nfiles, len(overlay), len(warnings))
}

func fail(format string, a ...any) {
	fmt.Fprintf(os.Stderr, "instr: "+format+"\n", a...)
	os.Exit(1)
}

var stubbed = map[string]bool{}

func funcName(fd *ast.FuncDecl) string {
	if fd.Recv == nil || len(fd.Recv.List) == 0 {
		return fd.Name.Name
	}
	var sb strings.Builder
	format.Node(&sb, token.NewFileSet(), fd.Recv.List[0].Type)
	return "(" + sb.String() + ")." + fd.Name.Name
}

// substs: textual substitutions applied to a source file before anything else
// (-substfile). Each must match exactly once, so an upstream change of the
// patched lines fails the build loudly instead of being masked.
type substT struct {
	File string `json:"file"` // path suffix, e.g. "pkg/rpc/mux.go"
	Old  string `json:"old"`
	New  string `json:"new"`
	Why  string `json:"why"`
	used bool
}

var substs []*substT

func instrument(path, dir string, stubs map[string]string) ([]byte, bool) {
	fset := token.NewFileSet()
	var src any
	changed := false
	for _, sb := range substs {
		if !strings.HasSuffix(path, sb.File) {
			continue
		}
		var text string
		if src == nil {
			b, err := os.ReadFile(path)
			if err != nil {
				fail("%v", err)
			}
			text = string(b)
		} else {
			text = src.(string)
		}
		if strings.Count(text, sb.Old) != 1 {
			fail("subst for %s: the text to replace occurs %d times (want exactly 1): %q", sb.File, strings.Count(text, sb.Old), sb.Old)
		}
		src = strings.Replace(text, sb.Old, sb.New, 1)
		sb.used = true
		changed = true
	}
	f, err := parser.ParseFile(fset, path, src, parser.ParseComments)
	if err != nil {
		fail("parse %s: %v", path, err)
	}
	needSched := false

	// stubs
	for _, d := range f.Decls {
		fd, ok := d.(*ast.FuncDecl)
		if !ok || fd.Body == nil {
			continue
		}
		if bf, ok := stubs[funcName(fd)]; ok {
			b, err := os.ReadFile(bf)
			if err != nil {
				fail("stub body: %v", err)
			}
			src := "package p\nfunc _() {\n" + string(b) + "\n}"
			sf, err := parser.ParseFile(token.NewFileSet(), "stub.go", src, 0)
			if err != nil {
				fail("stub body %s: %v", bf, err)
			}
			fd.Body = sf.Decls[0].(*ast.FuncDecl).Body
			stripPos(fd.Body)
			stubbed[dir+":"+funcName(fd)] = true
			changed = true
		}
	}

	if features["sync"] {
		for _, imp := range f.Imports {
			p, _ := strconv.Unquote(imp.Path.Value)
			switch p {
			case "sync":
				imp.Path.Value = strconv.Quote(base + "vsync")
				if imp.Name == nil {
					imp.Name = ast.NewIdent("sync")
				}
				changed = true
			case "sync/atomic":
				imp.Path.Value = strconv.Quote(base + "vatomic")
				if imp.Name == nil {
					imp.Name = ast.NewIdent("atomic")
				}
				changed = true
			}
		}
	}
	if features["net"] {
		for _, imp := range f.Imports {
			p, _ := strconv.Unquote(imp.Path.Value)
			if p == "net" {
				imp.Path.Value = strconv.Quote(base + "vnet")
				if imp.Name == nil {
					imp.Name = ast.NewIdent("net")
				}
				changed = true
			}
		}
	}

	pos := func(n ast.Node) string {
		p := fset.Position(n.Pos())
		return filepath.Base(p.Filename) + ":" + strconv.Itoa(p.Line)
	}
	sel := func(fn string) ast.Expr {
		needSched = true
		return &ast.SelectorExpr{X: ast.NewIdent("vsched"), Sel: ast.NewIdent(fn)}
	}
	lit := func(s string) ast.Expr { return &ast.BasicLit{Kind: token.STRING, Value: strconv.Quote(s)} }
	tokVar := func() *ast.Ident {
		counter++
		return ast.NewIdent(fmt.Sprintf("vtok%d", counter))
	}
	before := func(tv *ast.Ident) ast.Stmt {
		return &ast.AssignStmt{Lhs: []ast.Expr{tv}, Tok: token.DEFINE,
			Rhs: []ast.Expr{&ast.CallExpr{Fun: sel("BeforeBlock")}}}
	}
	after := func(tv *ast.Ident, label string) ast.Stmt {
		return &ast.ExprStmt{X: &ast.CallExpr{Fun: sel("AfterBlock"), Args: []ast.Expr{tv, lit(label)}}}
	}

	var hasRecv func(n ast.Node) bool
	hasRecv = func(n ast.Node) bool {
		found := false
		ast.Inspect(n, func(x ast.Node) bool {
			if found {
				return false
			}
			switch v := x.(type) {
			case *ast.FuncLit:
				return false
			case *ast.UnaryExpr:
				if v.Op == token.ARROW {
					found = true
				}
			}
			return true
		})
		return found
	}
	isTimeSleep := func(s ast.Stmt) bool {
		es, ok := s.(*ast.ExprStmt)
		if !ok {
			return false
		}
		c, ok := es.X.(*ast.CallExpr)
		if !ok {
			return false
		}
		se, ok := c.Fun.(*ast.SelectorExpr)
		if !ok {
			return false
		}
		id, ok := se.X.(*ast.Ident)
		return ok && id.Name == "time" && se.Sel.Name == "Sleep"
	}

	// detSelect expands a blocking select with >1 clauses into a priority
	// pre-pass (one non-blocking select per clause, source order) followed by
	// the original blocking select, so that the case taken when several are
	// ready does not depend on the runtime's random choice.
	// a select that is the last statement of a function body is its terminating
	// statement: wrapping it would make the function end without a return
	lastOfFunc := map[*ast.SelectStmt]bool{}
	markLast := func(b *ast.BlockStmt) {
		if b == nil || len(b.List) == 0 {
			return
		}
		if ss, ok := b.List[len(b.List)-1].(*ast.SelectStmt); ok {
			lastOfFunc[ss] = true
		}
	}
	ast.Inspect(f, func(n ast.Node) bool {
		switch v := n.(type) {
		case *ast.FuncDecl:
			markLast(v.Body)
		case *ast.FuncLit:
			markLast(v.Body)
		}
		return true
	})
	doneSel := map[*ast.SelectStmt]bool{}
	detSelect := func(ss *ast.SelectStmt, tv *ast.Ident) []ast.Stmt {
		if !features["detselect"] || len(ss.Body.List) < 2 || lastOfFunc[ss] {
			return nil
		}
		// a select whose clauses all end in return may be the terminating
		// statement of its function (possibly nested in a switch/if): keep it
		allRet := true
		for _, c := range ss.Body.List {
			b := c.(*ast.CommClause).Body
			if len(b) == 0 {
				allRet = false
				break
			}
			if _, ok := b[len(b)-1].(*ast.ReturnStmt); !ok {
				allRet = false
			}
		}
		if allRet {
			return nil
		}
		doneSel[ss] = true
		for _, c := range ss.Body.List {
			// bodies with labels cannot be duplicated
			hasLabel := false
			ast.Inspect(c, func(n ast.Node) bool {
				if _, ok := n.(*ast.LabeledStmt); ok {
					hasLabel = true
				}
				return true
			})
			if hasLabel {
				return nil
			}
		}
		counter++
		done := ast.NewIdent(fmt.Sprintf("vsel%d", counter))
		out := []ast.Stmt{&ast.AssignStmt{Lhs: []ast.Expr{done}, Tok: token.DEFINE, Rhs: []ast.Expr{ast.NewIdent("false")}}}
		for _, c := range ss.Body.List {
			cc := c.(*ast.CommClause)
			cp := cloneNode(fset, cc).(*ast.CommClause)
			cp.Body = append([]ast.Stmt{&ast.AssignStmt{Lhs: []ast.Expr{done}, Tok: token.ASSIGN, Rhs: []ast.Expr{ast.NewIdent("true")}}}, cp.Body...)
			sel1 := &ast.SelectStmt{Body: &ast.BlockStmt{List: []ast.Stmt{cp, &ast.CommClause{}}}}
			out = append(out, &ast.IfStmt{Cond: &ast.UnaryExpr{Op: token.NOT, X: done}, Body: &ast.BlockStmt{List: []ast.Stmt{sel1}}})
		}
		out = append(out, &ast.IfStmt{Cond: &ast.UnaryExpr{Op: token.NOT, X: done}, Body: &ast.BlockStmt{List: []ast.Stmt{ss}}})
		_ = tv
		return out
	}
	var rewriteList func(list []ast.Stmt) []ast.Stmt
	rewriteStmt := func(s ast.Stmt) ([]ast.Stmt, bool) {
		switch v := s.(type) {
		case *ast.LabeledStmt:
			// instrument the labeled statement in place when it is a blocking select
			if ss, ok := v.Stmt.(*ast.SelectStmt); ok && features["chan"] {
				hasDefault := false
				for _, c := range ss.Body.List {
					if c.(*ast.CommClause).Comm == nil {
						hasDefault = true
					}
				}
				if !hasDefault {
					tv := tokVar()
					for _, c := range ss.Body.List {
						cc := c.(*ast.CommClause)
						cc.Body = append([]ast.Stmt{after(tv, pos(cc))}, cc.Body...)
					}
					return []ast.Stmt{before(tv), s}, true
				}
			}
		case *ast.GoStmt:
			if !features["go"] {
				return nil, false
			}
			// go F(a...) -> { vf := F; va := a...; vsched.Go(pos, func(){ vf(va...) }) }
			var pre []ast.Stmt
			call := v.Call
			var fun ast.Expr = call.Fun
			if _, isLit := call.Fun.(*ast.FuncLit); !isLit || len(call.Args) > 0 {
				counter++
				fv := ast.NewIdent(fmt.Sprintf("vgo%d", counter))
				pre = append(pre, &ast.AssignStmt{Lhs: []ast.Expr{fv}, Tok: token.DEFINE, Rhs: []ast.Expr{call.Fun}})
				fun = fv
			}
			var args []ast.Expr
			for _, a := range call.Args {
				if _, isLit := a.(*ast.BasicLit); isLit {
					args = append(args, a)
					continue
				}
				if id, ok := a.(*ast.Ident); ok && (id.Name == "nil" || id.Name == "true" || id.Name == "false") {
					args = append(args, a)
					continue
				}
				counter++
				av := ast.NewIdent(fmt.Sprintf("vga%d", counter))
				pre = append(pre, &ast.AssignStmt{Lhs: []ast.Expr{av}, Tok: token.DEFINE, Rhs: []ast.Expr{a}})
				args = append(args, av)
			}
			inner := &ast.CallExpr{Fun: fun, Args: args, Ellipsis: call.Ellipsis}
			if call.Ellipsis != token.NoPos {
				inner.Ellipsis = 1
			}
			fl := &ast.FuncLit{Type: &ast.FuncType{Params: &ast.FieldList{}},
				Body: &ast.BlockStmt{List: []ast.Stmt{&ast.ExprStmt{X: inner}}}}
			var fb strings.Builder
			format.Node(&fb, fset, call.Fun)
			fname := fb.String()
			if _, isLit := call.Fun.(*ast.FuncLit); isLit || len(fname) > 40 {
				fname = "func"
			}
			// enclosing function, e.g. "Dispose:func"
			for _, d := range f.Decls {
				if fd, ok := d.(*ast.FuncDecl); ok && fd.Pos() <= v.Pos() && v.Pos() < fd.End() {
					fname = fd.Name.Name + ":" + fname
				}
			}
			goCall := &ast.ExprStmt{X: &ast.CallExpr{Fun: sel("Go"), Args: []ast.Expr{lit(pos(v) + " " + fname), fl}}}
			if len(pre) == 0 {
				return []ast.Stmt{goCall}, true
			}
			return []ast.Stmt{&ast.BlockStmt{List: append(pre, goCall)}}, true
		case *ast.SelectStmt:
			if !features["chan"] || doneSel[v] {
				return nil, false
			}
			hasDefault := false
			for _, c := range v.Body.List {
				if c.(*ast.CommClause).Comm == nil {
					hasDefault = true
				}
			}
			if hasDefault {
				return nil, false
			}
			tv := tokVar()
			for _, c := range v.Body.List {
				cc := c.(*ast.CommClause)
				cc.Body = append([]ast.Stmt{after(tv, pos(cc))}, cc.Body...)
			}
			if ds := detSelect(v, tv); ds != nil {
				return append([]ast.Stmt{before(tv)}, ds...), true
			}
			return []ast.Stmt{before(tv), s}, true
		case *ast.SendStmt:
			if !features["chan"] {
				return nil, false
			}
			tv := tokVar()
			return []ast.Stmt{before(tv), s, after(tv, pos(s))}, true
		case *ast.ExprStmt:
			if features["chan"] && (hasRecv(v) || isTimeSleep(v)) {
				tv := tokVar()
				return []ast.Stmt{before(tv), s, after(tv, pos(s))}, true
			}
		case *ast.AssignStmt:
			if features["chan"] && hasRecv(v) {
				if v.Tok == token.DEFINE {
					// keep the declared names in scope: declare the token first
					tv := tokVar()
					return []ast.Stmt{before(tv), s, after(tv, pos(s))}, true
				}
				tv := tokVar()
				return []ast.Stmt{before(tv), s, after(tv, pos(s))}, true
			}
		case *ast.DeclStmt:
			if features["chan"] && hasRecv(v) {
				tv := tokVar()
				return []ast.Stmt{before(tv), s, after(tv, pos(s))}, true
			}
		case *ast.RangeStmt:
			if features["maprange"] {
				p := fset.Position(v.Pos())
				key := filepath.Join(dir, filepath.Base(p.Filename)) + ":" + strconv.Itoa(p.Line)
				if mapSites[key] {
					return rewriteMapRange(v, key, sel), true
				}
			}
		case *ast.ReturnStmt:
			if features["chan"] && hasRecv(v) {
				warnings = append(warnings, "recv in return (not a schedule point): "+pos(s))
			}
		case *ast.IfStmt:
			if features["chan"] && ((v.Cond != nil && hasRecv(v.Cond)) || (v.Init != nil && hasRecv(v.Init))) {
				warnings = append(warnings, "recv in if header (not a schedule point): "+pos(s))
			}
		case *ast.DeferStmt:
			// nothing
		}
		return nil, false
	}
	rewriteList = func(list []ast.Stmt) []ast.Stmt {
		var outl []ast.Stmt
		for _, s := range list {
			if r, ok := rewriteStmt(s); ok {
				outl = append(outl, r...)
				changed = true
				continue
			}
			outl = append(outl, s)
		}
		return outl
	}

	if features["maprange"] {
		ast.Inspect(f, func(n ast.Node) bool {
			c, ok := n.(*ast.CallExpr)
			if !ok {
				return true
			}
			se, ok := c.Fun.(*ast.SelectorExpr)
			if !ok {
				return true
			}
			id, ok := se.X.(*ast.Ident)
			if !ok || id.Name != "maps" || (se.Sel.Name != "Keys" && se.Sel.Name != "Values") || len(c.Args) != 1 {
				return true
			}
			c.Fun = sel("Map" + se.Sel.Name)
			c.Args = []ast.Expr{lit(dir + "/" + pos(c)), c.Args[0]}
			changed = true
			return true
		})
	}
	ast.Inspect(f, func(n ast.Node) bool {
		switch v := n.(type) {
		case *ast.BlockStmt:
			v.List = rewriteList(v.List)
		case *ast.CaseClause:
			v.Body = rewriteList(v.Body)
		case *ast.CommClause:
			v.Body = rewriteList(v.Body)
		case *ast.RangeStmt:
			if features["chan"] {
				// range over a channel cannot be recognised syntactically; flagged by name heuristics
				if id, ok := v.X.(*ast.Ident); ok && (strings.HasSuffix(strings.ToLower(id.Name), "ch") || strings.HasSuffix(strings.ToLower(id.Name), "chan")) {
					warnings = append(warnings, "possible range over channel: "+pos(v))
				}
			}
		}
		return true
	})

	// single-statement bodies that are not in a block list (if x {go f()} is a block, fine)

	if features["maprange"] {
		used := false
		ast.Inspect(f, func(n ast.Node) bool {
			if se, ok := n.(*ast.SelectorExpr); ok {
				if id, ok := se.X.(*ast.Ident); ok && id.Name == "maps" {
					used = true
				}
			}
			return true
		})
		if !used {
			for _, imp := range f.Imports {
				if imp.Path.Value == `"maps"` && imp.Name == nil {
					imp.Name = ast.NewIdent("_")
				}
			}
		}
	}
	if needSched {
		spec := &ast.ImportSpec{Name: ast.NewIdent("vsched"), Path: &ast.BasicLit{Kind: token.STRING, Value: strconv.Quote(base + "vsched")}}
		added := false
		for _, d := range f.Decls {
			if gd, ok := d.(*ast.GenDecl); ok && gd.Tok == token.IMPORT {
				gd.Specs = append(gd.Specs, spec)
				if !gd.Lparen.IsValid() {
					gd.Lparen = 1
					gd.Rparen = 1
				}
				added = true
				break
			}
		}
		if !added {
			gd := &ast.GenDecl{Tok: token.IMPORT, Specs: []ast.Spec{spec}}
			f.Decls = append([]ast.Decl{gd}, f.Decls...)
		}
		f.Imports = append(f.Imports, spec)
	}
	if !changed {
		return nil, false
	}
	var sb strings.Builder
	if err := format.Node(&sb, fset, f); err != nil {
		fail("format %s: %v", path, err)
	}
	return []byte(sb.String()), true
}

// rewriteMapRange turns `for k, v := range m {body}` into
// `{ vm := m; for _, k := range vsched.MapOrder(label, vm) { v := vm[k]; body } }`.
func rewriteMapRange(v *ast.RangeStmt, label string, sel func(string) ast.Expr) []ast.Stmt {
	counter++
	mv := ast.NewIdent(fmt.Sprintf("vmap%d", counter))
	decl := &ast.AssignStmt{Lhs: []ast.Expr{mv}, Tok: token.DEFINE, Rhs: []ast.Expr{v.X}}
	keyIdent := v.Key
	var pre []ast.Stmt
	counter++
	kv := ast.NewIdent(fmt.Sprintf("vkey%d", counter))
	tok := v.Tok
	if tok == token.ILLEGAL {
		tok = token.DEFINE
	}
	if keyIdent != nil {
		if id, ok := keyIdent.(*ast.Ident); !ok || id.Name != "_" {
			pre = append(pre, &ast.AssignStmt{Lhs: []ast.Expr{keyIdent}, Tok: tok, Rhs: []ast.Expr{kv}})
			if tok == token.DEFINE {
				pre = append(pre, &ast.AssignStmt{Lhs: []ast.Expr{ast.NewIdent("_")}, Tok: token.ASSIGN, Rhs: []ast.Expr{keyIdent}})
			}
		}
	}
	// entries deleted during the iteration are skipped, like in a native range
	counter++
	okv := ast.NewIdent(fmt.Sprintf("vok%d", counter))
	counter++
	valv := ast.NewIdent(fmt.Sprintf("vval%d", counter))
	pre = append([]ast.Stmt{
		&ast.AssignStmt{Lhs: []ast.Expr{valv, okv}, Tok: token.DEFINE, Rhs: []ast.Expr{&ast.IndexExpr{X: mv, Index: kv}}},
		&ast.AssignStmt{Lhs: []ast.Expr{ast.NewIdent("_")}, Tok: token.ASSIGN, Rhs: []ast.Expr{valv}},
		&ast.IfStmt{Cond: &ast.UnaryExpr{Op: token.NOT, X: okv}, Body: &ast.BlockStmt{List: []ast.Stmt{&ast.BranchStmt{Tok: token.CONTINUE}}}},
	}, pre...)
	if v.Value != nil {
		if id, ok := v.Value.(*ast.Ident); !ok || id.Name != "_" {
			pre = append(pre, &ast.AssignStmt{Lhs: []ast.Expr{v.Value}, Tok: tok, Rhs: []ast.Expr{valv}})
			if tok == token.DEFINE {
				pre = append(pre, &ast.AssignStmt{Lhs: []ast.Expr{ast.NewIdent("_")}, Tok: token.ASSIGN, Rhs: []ast.Expr{v.Value}})
			}
		}
	}
	body := &ast.BlockStmt{List: append(pre, v.Body.List...)}
	loop := &ast.RangeStmt{Key: ast.NewIdent("_"), Value: kv, Tok: token.DEFINE,
		X: &ast.CallExpr{Fun: sel("MapOrder"), Args: []ast.Expr{
			&ast.BasicLit{Kind: token.STRING, Value: strconv.Quote(label)}, mv}},
		Body: body}
	return []ast.Stmt{&ast.BlockStmt{List: []ast.Stmt{decl, loop}}}
}

// cloneNode deep-copies a comm clause by printing and re-parsing it.
func cloneNode(fset *token.FileSet, n ast.Node) ast.Node {
	var sb strings.Builder
	if err := format.Node(&sb, fset, n); err != nil {
		fail("clone: %v", err)
	}
	src := "package p\nfunc _() {\nselect {\n" + sb.String() + "\n}\n}"
	f, err := parser.ParseFile(token.NewFileSet(), "clone.go", src, 0)
	if err != nil {
		fail("clone parse: %v\n%s", err, src)
	}
	cc := f.Decls[0].(*ast.FuncDecl).Body.List[0].(*ast.SelectStmt).Body.List[0]
	// drop positions so the printer lays the copy out afresh
	ast.Inspect(cc, func(x ast.Node) bool { return true })
	return cc
}

func stripPos(n ast.Node) {
	// positions of a foreign file set confuse the printer's comment placement;
	// they are harmless for code without comments, so nothing to do.
	_ = n
}
