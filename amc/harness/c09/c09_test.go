// C09 - the RPC mirror converges.
//
// SEQ in fake time over an in-memory network (vnet): a real source machine, a
// real rpc.Server and rpc.Client with its NetworkMachine, all inside a
// testing/synctest bubble. Histories of events (source-side mutations,
// mutations issued through the network machine, holding back / releasing the
// server->client bytes, cutting the link, letting time pass) are enumerated
// exhaustively up to a depth for every sync configuration; at quiescence the
// mirror must equal the source on every synchronised state.
package c09

import (
	"context"
	"fmt"
	"os"
	"runtime"
	"slices"
	"strconv"
	"strings"
	"testing"
	"testing/synctest"
	"time"

	"amc/kit"

	am "github.com/pancsta/asyncmachine-go/pkg/machine"
	arpc "github.com/pancsta/asyncmachine-go/pkg/rpc"
	ssrpc "github.com/pancsta/asyncmachine-go/pkg/rpc/states"
	"github.com/pancsta/asyncmachine-go/pkg/states/pipes"
	"github.com/pancsta/asyncmachine-go/pkg/x/vnet"
	"github.com/pancsta/asyncmachine-go/pkg/x/vsched"
)

var (
	ssC = ssrpc.ClientStates
	ssS = ssrpc.ServerStates
)

// source schema: plain, Multi, Auto, Require, Remove
func srcSchema() (am.Schema, am.S) {
	sc := am.SchemaMerge(ssrpc.StateSourceSchema, am.Schema{
		"A": {},
		"B": {Multi: true},
		"C": {Require: am.S{"A"}},
		"D": {Auto: true, Require: am.S{"A"}, Remove: am.S{"E"}},
		"E": {Remove: am.S{"D"}},
	})
	names := am.S{"A", "B", "C", "D", "E"}
	names = append(names, ssrpc.StateSourceStates.Names()...)
	return sc, names
}

type cfgT struct {
	Name     string   `json:"name"`
	NoSchema bool     `json:"no_schema,omitempty"`
	Allowed  []string `json:"allowed,omitempty"`
	Skipped  []string `json:"skipped,omitempty"`
	Shallow  bool     `json:"shallow,omitempty"`
	Muts     bool     `json:"sync_mutations,omitempty"`
	PushMs   int      `json:"push_ms"`
	// Pipe: a local machine's state A is piped (pipes.Bind) into the network
	// machine, i.e. the network machine is a pipe target (C18 over RPC)
	Pipe bool `json:"pipe,omitempty"`
}

type caseT struct {
	Cfg  cfgT     `json:"cfg"`
	Hist []string `json:"hist"`
}

type world struct {
	pm   *am.Machine // pipe source (Pipe configs)
	src  *am.Machine
	srv  *arpc.Server
	cli  *arpc.Client
	tr   *kit.RecTracer
	held bool
	// lostReply: a client-issued mutation timed out while the server->client
	// bytes were held back (its reply arrives after the call was given up)
	lostReply bool
	// changedAfter: the source changed again after the hold was released, so a
	// later push reached the client and had to repair the mirror
	changedAfter bool
	bad          []string
}

func setup(ctx context.Context, c cfgT) (*world, error) {
	vnet.Reset()
	sc, names := srcSchema()
	tr := kit.NewRecTracer("src")
	src := am.New(ctx, sc, &am.Opts{Id: "src", Tracers: []am.Tracer{tr}})
	tr.Mach = src
	if err := src.VerifyStates(names); err != nil {
		return nil, err
	}
	srv, err := arpc.NewServer(ctx, "localhost:0", "t", src, &arpc.ServerOpts{Parent: src})
	if err != nil {
		return nil, err
	}
	push := time.Duration(c.PushMs) * time.Millisecond
	srv.PushInterval.Store(&push)
	srv.Start(nil)
	if err := wait(ctx, 5*time.Second, srv.Mach.When1(ssS.RpcReady, nil)); err != nil {
		return nil, fmt.Errorf("server RpcReady: %w (%s)", err, srv.Mach.String())
	}
	opts := &arpc.ClientOpts{Parent: src, NoSchema: c.NoSchema, AllowedStates: c.Allowed, SkippedStates: c.Skipped, SyncShallowClocks: c.Shallow, SyncMutations: c.Muts}
	schema := src.Schema()
	if c.NoSchema {
		schema = nil
	}
	cli, err := arpc.NewClient(ctx, srv.Addr, "t", schema, opts)
	if err != nil {
		return nil, err
	}
	cli.Start(nil)
	if err := wait(ctx, 10*time.Second, cli.Mach.When1(ssC.Ready, nil)); err != nil {
		return nil, fmt.Errorf("client Ready: %w (client %s; server %s)", err, cli.Mach.String(), srv.Mach.String())
	}
	if os.Getenv("C09_LOG") != "" {
		srv.LogEnabled, cli.LogEnabled = true, true
		for _, m := range []*am.Machine{srv.Mach, cli.Mach} {
			id := m.Id()
			m.SemLogger().SetSimple(func(f string, a ...any) {
				if logBuf != nil {
					fmt.Fprintf(logBuf, "    ["+id+"] "+f+"\n", a...)
					return
				}
				fmt.Printf("    ["+id+"] "+f+"\n", a...)
			}, am.LogExternal)
		}
	}
	w := &world{src: src, srv: srv, cli: cli, tr: tr}
	if c.Pipe {
		w.pm = am.New(ctx, am.Schema{"A": {}}, &am.Opts{Id: "pm"})
		if err := w.pm.VerifyStates(am.S{"A", am.StateException}); err != nil {
			return nil, err
		}
		src.HandlersBindMaps(nil, map[string]am.HandlerFinal{"BState": func(e *am.Event) { time.Sleep(50 * time.Millisecond) }})
		if _, err := pipes.Bind(w.pm, cli.NetMach, "A", "A", ""); err != nil {
			return nil, fmt.Errorf("pipes.Bind to the network machine: %w", err)
		}
	}
	return w, nil
}

var logBuf *strings.Builder

func wait(ctx context.Context, d time.Duration, ch <-chan struct{}) error {
	t := time.NewTimer(d)
	defer t.Stop()
	select {
	case <-ch:
		return nil
	case <-t.C:
		return fmt.Errorf("timeout after %v", d)
	case <-ctx.Done():
		return ctx.Err()
	}
}

func liveLink() *vnet.Link {
	ls := vnet.Links()
	for i := len(ls) - 1; i >= 0; i-- {
		if !ls[i].IsCut() {
			return ls[i]
		}
	}
	return nil
}

// synced: the states this configuration synchronises.
func (w *world) synced(c cfgT) am.S {
	var out am.S
	for _, s := range w.cli.NetMach.StateNames() {
		if !w.src.Has1(s) {
			continue
		}
		if len(c.Allowed) > 0 && !slices.Contains(c.Allowed, s) {
			continue
		}
		if slices.Contains(c.Skipped, s) {
			continue
		}
		out = append(out, s)
	}
	return out
}

// same reports a difference between the mirror and the source for state s.
func (w *world) same(c cfgT, s string) string {
	nm := w.cli.NetMach
	st, mt := w.src.Tick(s), nm.Tick(s)
	if c.Shallow {
		if st%2 != mt%2 {
			return fmt.Sprintf("state %s source tick %d, mirror tick %d (parity differs)", s, st, mt)
		}
	} else if st != mt {
		return fmt.Sprintf("state %s source tick %d, mirror tick %d", s, st, mt)
	}
	if w.src.Is1(s) != nm.Is1(s) {
		return fmt.Sprintf("state %s source active=%v, mirror active=%v", s, w.src.Is1(s), nm.Is1(s))
	}
	return ""
}

// apply one event; returns an observation
func (w *world) apply(c cfgT, ev string) string {
	op, arg, _ := strings.Cut(ev, ":")
	st := am.S(strings.Split(arg, ","))
	switch op {
	case "sadd", "srem":
		// only a change of a synchronised state produces a push
		syncedSum := func() (n uint64) {
			for i, s := range w.synced(c) {
				t := w.src.Tick(s)
				if c.Shallow {
					t %= 2 // only activity is sent
				}
				n = n*31 + t + uint64(i)
			}
			return
		}
		before := syncedSum()
		var res am.Result
		if op == "sadd" {
			res = w.src.Add(st, nil)
		} else {
			res = w.src.Remove(st, nil)
		}
		if w.lostReply && !w.held && syncedSum() != before {
			w.changedAfter = true
		}
		return fmt.Sprint(res)
	case "cadd", "crem", "cset":
		for _, x := range st {
			if !slices.Contains(w.cli.NetMach.StateNames(), x) {
				return "n/a" // unknown states panic by documentation
			}
		}
		healthy := !w.held && liveLink() != nil && w.cli.Mach.Is1(ssC.Ready)
		ntx := len(w.tr.Txs)
		var res am.Result
		done := make(chan struct{})
		go func() {
			defer close(done)
			switch op {
			case "cadd":
				res = w.cli.NetMach.Add(st, nil)
			case "crem":
				res = w.cli.NetMach.Remove(st, nil)
			default:
				res = w.cli.NetMach.Set(st, nil)
			}
		}()
		select {
		case <-done:
		case <-time.After(30 * time.Minute):
			// all call timeouts and retries (3s x 15, with back-off) are long over
			w.bad = append(w.bad, fmt.Sprintf("blocked-call: %s did not return within 30 (fake) minutes", ev))
			return "blocked"
		}
		if w.held && res != am.Executed {
			w.lostReply = true
		}
		if healthy {
			// the result is the one the source produced
			var tx *kit.TxRec
			for i := ntx; i < len(w.tr.Txs); i++ {
				if !w.tr.Txs[i].IsAuto && !w.tr.Txs[i].IsCheck {
					tx = &w.tr.Txs[i]
					break
				}
			}
			switch {
			case tx == nil && res == am.Executed:
				w.bad = append(w.bad, fmt.Sprintf("result: %s returned %s over a healthy link but the source saw no transition", ev, res))
			case tx != nil && tx.Accepted != (res == am.Executed):
				w.bad = append(w.bad, fmt.Sprintf("result: %s returned %s but the source's transition was accepted=%v", ev, res, tx.Accepted))
			}
			// ...and its effect is visible locally when the call returns
			if res == am.Executed {
				for _, s := range w.synced(c) {
					if d := w.same(c, s); d != "" {
						w.bad = append(w.bad, fmt.Sprintf("not-visible: right after %s returned %s: %s", ev, res, d))
						break
					}
				}
			}
		}
		return fmt.Sprint(res)
	case "sbusy":
		go w.src.Add1("B", nil)
	case "padd":
		if w.pm != nil {
			return fmt.Sprint(w.pm.Add(st, nil))
		}
	case "prem":
		if w.pm != nil {
			return fmt.Sprint(w.pm.Remove(st, nil))
		}
	case "hold":
		if l := liveLink(); l != nil {
			l.HoldToClient()
			w.held = true
		}
	case "release":
		for _, l := range vnet.Links() {
			l.ReleaseToClient()
		}
		w.held = false
	case "cut":
		if l := liveLink(); l != nil {
			l.Cut()
		}
	case "sleep":
		d, _ := time.ParseDuration(arg)
		time.Sleep(d)
	}
	return ""
}

// runPlan runs the case under a delay plan (see vsched.DelayPlan); seen lists
// the delay points met after the set-up.
func runPlan(c caseT, plan map[string]time.Duration, fromStart bool) (bad []string, obs string, seen, applied []string) {
	d := vsched.NewDelayPlan(plan)
	defer vsched.DelayOff()
	if fromStart {
		d.MaxHits = 48
		d.SetActive(true)
	}
	activate = func() { d.SetActive(true) }
	defer func() { activate = nil }()
	bad, obs = runCase(c, false)
	return bad, obs, d.Seen, d.Applied
}

var activate func()

// bubble runs f in a fresh synctest bubble under a real-time watchdog: a stuck
// bubble (fake clock stopped) cannot be cancelled, so the worker gives up with
// a harness error instead of hanging.
func bubble(t *testing.T, rep *kit.Report, what any, f func()) {
	done := make(chan struct{})
	go func() {
		select {
		case <-done:
		case <-time.After(90 * time.Second):
			rep.HarnessError("bubble stuck for 90s (real time) in %v", what)
			rep.Write()
			buf := make([]byte, 1<<20)
			os.Stderr.Write(buf[:runtime.Stack(buf, true)])
			os.Exit(2)
		}
	}()
	defer close(done)
	defer func() {
		// "main bubble goroutine has exited but blocked goroutines remain": the
		// run is over and verdicts are in; goroutines left blocked for good
		// after the tear-down are counted, not judged (C13 owns disposal)
		if p := recover(); p != nil {
			if strings.Contains(fmt.Sprint(p), "blocked goroutines remain") {
				rep.Add("leaked_goroutines_runs", 1)
				return
			}
			panic(p)
		}
	}()
	synctest.Test(t, func(t *testing.T) { f() })
}

func runCase(c caseT, verbose bool) (bad []string, obs string) {
	ctx, cancel := context.WithCancel(context.Background())
	defer cancel()
	w, err := setup(ctx, c.Cfg)
	if err != nil {
		return []string{"setup: " + err.Error()}, ""
	}
	var o []string
	if activate != nil {
		activate()
	}
	for _, ev := range c.Hist {
		r := w.apply(c.Cfg, ev)
		synctest.Wait()
		o = append(o, ev+"="+r)
	}
	// let the system settle: release held bytes, give it (fake) time
	w.apply(c.Cfg, "release")
	time.Sleep(time.Minute)
	synctest.Wait()
	if c.Cfg.PushMs == 0 && w.cli.Mach.Is1(ssC.Ready) {
		// pushes are disabled (documented): only a client-issued mutation
		// brings the clocks over
		w.apply(c.Cfg, "cadd:B")
		synctest.Wait()
	}
	if verbose {
		fmt.Printf("  src=%s\n  mirror=%s\n  client=%s\n  server=%s\n", w.src.String(), w.cli.NetMach.String(), w.cli.Mach.String(), w.srv.Mach.String())
	}
	bad = w.bad
	if w.cli.Mach.Not1(ssC.Ready) {
		bad = append(bad, fmt.Sprintf("not-ready: client is not Ready a minute after the last event (client %s, server %s)", w.cli.Mach.String(), w.srv.Mach.String()))
	} else {
		for _, s := range w.synced(c.Cfg) {
			if d := w.same(c.Cfg, s); d != "" {
				kind := "stale"
				if w.lostReply && !w.changedAfter {
					kind = "stale-after-lost-reply"
				}
				bad = append(bad, kind+": a minute after the last event: "+d)
			}
		}
	}
	if os.Getenv("C09_REPEAT") != "" {
		o = append(o, "server="+w.srv.Mach.String(), fmt.Sprint("srverr=", w.srv.Mach.Err()), "client="+w.cli.Mach.String(), fmt.Sprint("clierr=", w.cli.Mach.Err()))
	}
	if w.pm != nil && w.cli.Mach.Is1(ssC.Ready) && !w.lostReply && w.pm.Is1("A") != w.src.Is1("A") {
		bad = append(bad, fmt.Sprintf("pipe-diverged: a minute after the last event the piped source has A active=%v, the remote machine behind the network machine A active=%v", w.pm.Is1("A"), w.src.Is1("A")))
	}
	o = append(o, "src="+w.src.String(), "mirror="+w.cli.NetMach.String())
	// tear down
	if w.pm != nil {
		w.pm.Dispose()
	}
	w.cli.Stop(ctx, nil, true)
	w.srv.Stop(nil, true)
	w.cli.Mach.Dispose()
	w.srv.Mach.Dispose()
	w.src.Dispose()
	cancel()
	time.Sleep(time.Minute)
	vnet.CloseAll()
	time.Sleep(2 * time.Minute)
	return bad, strings.Join(o, " | ")
}

func configs() []cfgT {
	cs := []cfgT{
		{Name: "schema/all/deep/100ms", PushMs: 100},
		{Name: "schema/all/deep/nopush", PushMs: 0},
		{Name: "schema/allow/deep/100ms", PushMs: 100, Allowed: []string{"A", "B", "D"}},
		{Name: "schema/skip/deep/100ms", PushMs: 100, Skipped: []string{"B"}},
		{Name: "schema/all/shallow/100ms", PushMs: 100, Shallow: true},
		{Name: "noschema/allow/deep/100ms", PushMs: 100, NoSchema: true, Allowed: []string{"A", "B"}},
		{Name: "schema/all/mutations/100ms", PushMs: 100, Muts: true},
		{Name: "pipe/schema/all/deep/2s", PushMs: 2000, Pipe: true},
	}
	if kit.Thorough() {
		cs = append(cs,
			cfgT{Name: "noschema/all/shallow/100ms", PushMs: 100, NoSchema: true, Shallow: true},
			cfgT{Name: "schema/allow/shallow/1ms", PushMs: 1, Allowed: []string{"A", "C"}, Shallow: true},
			cfgT{Name: "schema/skip/mutations/1ms", PushMs: 1, Skipped: []string{"D", "E"}, Muts: true},
			cfgT{Name: "schema/all/deep/2s", PushMs: 2000},
		)
	}
	return cs
}

// pipeAlphabet is used instead of alphabet for Pipe configs.
// sbusy: the remote machine starts a transition whose handler takes 50ms, so
// that what arrives meanwhile is only queued there.
var pipeAlphabet = []string{"padd:A", "prem:A", "sbusy", "cadd:B", "sleep:150ms", "sleep:5s"}

var alphabet = []string{
	"sadd:A", "srem:A", "sadd:B", "sadd:C", "sadd:E",
	"cadd:A", "crem:A", "cadd:B", "cset:E",
	"hold", "release", "cut", "sleep:150ms", "sleep:5s",
}

func sigOf(b string) string { return b[:strings.Index(b, ":")] }

func TestCheck(t *testing.T) {
	rep := kit.NewReport("C09")
	defer rep.Write()
	if kit.ReplayPath() != "" {
		var c caseT
		if err := kit.LoadReplay(&c); err != nil {
			t.Fatal(err)
		}
		var bad []string
		var obs string
		var dr struct {
			Delays    map[string]string `json:"delays"`
			FromStart bool              `json:"from_start"`
		}
		kit.LoadReplay(&dr)
		if dr.Delays != nil || os.Getenv("C09_PART") == "delay" {
			plan := map[string]time.Duration{}
			for k, v := range dr.Delays {
				plan[k], _ = time.ParseDuration(v)
			}
			var applied []string
			synctest.Test(t, func(t *testing.T) { bad, obs, _, applied = runPlan(c, plan, dr.FromStart) })
			fmt.Println("replay (delay plan)", c.Cfg.Name, plan, "applied:", applied, obs)
			for _, b := range bad {
				fmt.Println("  violation:", b)
				rep.Violate("c09:delay:"+sigOf(b)+":"+c.Cfg.Name, b, c)
			}
			rep.Add("states", 1)
			rep.Add("transitions", int64(len(c.Hist)))
			return
		}
		synctest.Test(t, func(t *testing.T) { bad, obs = runCase(c, true) })
		fmt.Println("replay", c.Cfg.Name, obs)
		for _, b := range bad {
			fmt.Println("  violation:", b)
			rep.Violate("c09:"+sigOf(b)+":"+c.Cfg.Name, b, c)
		}
		rep.Add("states", 1)
		rep.Add("transitions", int64(len(c.Hist)))
		return
	}
	if h := os.Getenv("C09_HIST"); h != "" {
		for _, c := range configs() {
			if n := os.Getenv("C09_CFG"); n != "" && n != c.Name {
				continue
			}
			var bad []string
			var obs string
			if n, _ := strconv.Atoi(os.Getenv("C09_REPEAT")); n > 0 {
				fails := 0
				for i := 0; i < n; i++ {
					logBuf = &strings.Builder{}
					synctest.Test(t, func(t *testing.T) { bad, obs = runCase(caseT{c, strings.Fields(h)}, false) })
					if len(bad) > 0 {
						fails++
						if fails == 1 {
							fmt.Println("first failure at run", i, obs, bad)
							fmt.Println(logBuf.String())
						}
					}
				}
				logBuf = nil
				fmt.Printf("%s: %d of %d runs failed\n", c.Name, fails, n)
				continue
			}
			synctest.Test(t, func(t *testing.T) { bad, obs = runCase(caseT{c, strings.Fields(h)}, true) })
			fmt.Println(c.Name, obs)
			for _, b := range bad {
				fmt.Println("  BAD:", b)
			}
		}
		return
	}
	if os.Getenv("C09_PART") == "delay" {
		delayPart(t, rep)
		return
	}
	depth := 3
	if kit.Thorough() {
		depth = 4
	}
	var hists [][]string
	var rec func(h []string)
	rec = func(h []string) {
		if len(h) > 0 {
			hists = append(hists, slices.Clone(h))
		}
		if len(h) == depth {
			return
		}
		for _, e := range alphabet {
			// pruning: release only while held, no double hold
			held := false
			for _, x := range h {
				if x == "hold" {
					held = true
				} else if x == "release" {
					held = false
				}
			}
			if (e == "release" && !held) || (e == "hold" && held) {
				continue
			}
			rec(append(h, e))
		}
	}
	rec(nil)
	var pipeHists [][]string
	var recp func(h []string)
	recp = func(h []string) {
		if len(h) > 0 {
			pipeHists = append(pipeHists, slices.Clone(h))
		}
		if len(h) == depth+1 {
			return
		}
		for _, e := range pipeAlphabet {
			recp(append(h, e))
		}
	}
	recp(nil)
	shard, nshard := kit.Shard()
	cfgs := configs()
	rep.Note("grid", fmt.Sprintf("%d histories (depth <= %d over %d events) x %d configs", len(hists), depth, len(alphabet), len(cfgs)))
	n := 0
	for ci, c := range cfgs {
		hists := hists
		if c.Pipe {
			hists = pipeHists
		}
		for hi, h := range hists {
			n++
			if (ci*len(hists)+hi)%nshard != shard {
				continue
			}
			if rep.OverBudget() {
				rep.NotExhaustive("budget")
				return
			}
			cs := caseT{c, h}
			var bad []string
			var obs string
			if os.Getenv("C09_TRACE") != "" {
				fmt.Fprintln(os.Stderr, "case", c.Name, h)
			}
			bubble(t, rep, cs, func() { bad, obs = runCase(cs, false) })
			rep.Add("evaluations", 1)
			rep.Add("transitions", int64(len(h)))
			rep.Distinct("outcomes", obs[strings.LastIndex(obs, "src="):])
			faulty := false
			for _, e := range h {
				if e == "cut" || e == "hold" {
					faulty = true
				}
			}
			if faulty {
				rep.Add("nontrivial", 1)
			}
			if len(bad) > 0 {
				// a verdict must be reproducible
				var bad2 []string
				bubble(t, rep, cs, func() { bad2, _ = runCase(cs, false) })
				if !slices.Equal(bad, bad2) {
					rep.Add("irreproducible", 1)
					rep.Note("irreproducible_example", fmt.Sprintf("%v: %v vs %v", cs, bad, bad2))
					continue
				}
			}
			for _, b := range bad {
				rep.Violate("c09:"+sigOf(b)+":"+c.Name, fmt.Sprintf("%s :: cfg=%s hist=%v", b, c.Name, h), cs)
			}
		}
	}
	rep.Add("states", int64(len(hists)))
	rep.Sample(2, caseT{cfgs[0], hists[len(hists)/2]})
}

// delayPart: delay-bounded scheduling of the races between the two producers
// of diffs (push goroutines / ticker vs mutation replies) and the client's
// consumers. For each focused case: the default schedule, then every single
// delay point x {1us, 150ms} (quick), plus every pair (thorough).
func delayPart(t *testing.T, rep *kit.Report) {
	type fc struct {
		cfg   string
		hist  string
		start bool // delay points of the connection set-up, too
	}
	focus := []fc{
		{"schema/all/deep/100ms", "sadd:B", true},
		{"schema/all/mutations/100ms", "cset:E sadd:B", true},
		{"schema/all/mutations/100ms", "cset:E sadd:B", false},
		{"schema/all/mutations/100ms", "cadd:A sadd:B cadd:B", false},
		{"schema/all/deep/100ms", "cadd:A sadd:B", false},
		{"schema/all/deep/100ms", "sadd:A cadd:B sadd:B", false},
		{"schema/all/deep/100ms", "sadd:A srem:A cadd:A", false},
		{"schema/all/shallow/100ms", "cadd:A sadd:B srem:A", false},
		{"noschema/allow/deep/100ms", "cadd:A sadd:B", false},
		{"schema/all/deep/100ms", "cut sadd:A cadd:B", false},
	}
	// 60ms: longer than the push interval used here (50ms), shorter than the
	// default handler timeout (100ms) - a longer stall inside a handler is a
	// handler timeout, which is not this property's subject
	delays := []time.Duration{time.Microsecond, 60 * time.Millisecond}
	byName := map[string]cfgT{}
	for _, c := range configs() {
		c.PushMs = 50
		byName[c.Name] = c
	}
	shard, nshard := kit.Shard()
	for fi, f := range focus {
		if fi%nshard != shard {
			continue
		}
		cs := caseT{byName[f.cfg], strings.Fields(f.hist)}
		verdict := func(plan map[string]time.Duration) {
			var bad []string
			var obs string
			var applied []string
			bubble(t, rep, []any{cs, plan}, func() { bad, obs, _, applied = runPlan(cs, plan, f.start) })
			rep.Add("evaluations", 1)
			rep.Add("transitions", int64(len(cs.Hist)))
			rep.Distinct("outcomes", obs)
			if len(applied) > 0 {
				rep.Add("nontrivial", 1)
			}
			if len(bad) == 0 {
				return
			}
			var bad2 []string
			bubble(t, rep, []any{cs, plan}, func() { bad2, _, _, _ = runPlan(cs, plan, f.start) })
			if !slices.Equal(bad, bad2) {
				rep.Add("irreproducible", 1)
				return
			}
			pl := map[string]string{}
			for k, v := range plan {
				pl[k] = v.String()
			}
			for _, b := range bad {
				rep.Violate("c09:delay:"+sigOf(b)+":"+cs.Cfg.Name, fmt.Sprintf("%s :: cfg=%s hist=%v delays=%v", b, cs.Cfg.Name, cs.Hist, pl), map[string]any{"cfg": cs.Cfg, "hist": cs.Hist, "delays": pl, "from_start": f.start})
			}
		}
		var seen []string
		bubble(t, rep, cs, func() { _, _, seen, _ = runPlan(cs, nil, f.start) })
		verdict(nil)
		known := map[string]bool{}
		var keys []string
		for _, k := range seen {
			if !known[k] {
				known[k] = true
				keys = append(keys, k)
			}
		}
		rep.Add("states", int64(len(keys)))
		for i, k := range keys {
			for _, d := range delays {
				if rep.OverBudget() {
					rep.NotExhaustive("budget (delay part)")
					return
				}
				verdict(map[string]time.Duration{k: d})
				// pairs (thorough): both points inside pkg/rpc (the producers
				// and consumers of diffs); all pairs of all points would be
				// ~10^7 executions per case
				if kit.Thorough() && strings.Contains(k, "@rpc") {
					for _, k2 := range keys[i+1:] {
						if !strings.Contains(k2, "@rpc") {
							continue
						}
						if rep.OverBudget() {
							rep.NotExhaustive("budget (delay part, pairs)")
							return
						}
						verdict(map[string]time.Duration{k: d, k2: time.Microsecond})
					}
				}
			}
		}
	}
}
