// C04 - one queue, one transition at a time, in order, none lost.
//
// Stateless model checking (SCHED): 2-3 controlled threads issue mutations on
// one real machine whose sync operations are schedule points; all schedules
// with <= bound deviations from the causal default are executed.
package c04

import (
	"context"
	"fmt"
	"os"
	"strings"
	"testing"
	"time"

	"amc/kit"
	sk "amc/schedkit"

	am "github.com/pancsta/asyncmachine-go/pkg/machine"
	"github.com/pancsta/asyncmachine-go/pkg/x/vsched"
)

// world is the per-execution state shared by driver body, handlers, tracer.
type world struct {
	m        *am.Machine
	r        *sk.Run
	in       int // handlers / evals currently running
	maxIn    int
	depth    int // transitions currently open (tracer Start..End)
	maxDepth int
	order    []uint64 // queue ticks of processed (TransitionEnd) mutations, in order
	ended    map[uint64]bool
	log      []string
	results  []res
	chans    []sub
}

type res struct {
	who string
	r   am.Result
}

type sub struct {
	who  string
	tick am.Result
	ch   <-chan struct{}
}

type tracer struct {
	*am.TracerNoOp
	w *world
}

func (t *tracer) TransitionStart(tx *am.Transition) {
	t.w.depth++
	if t.w.depth > t.w.maxDepth {
		t.w.maxDepth = t.w.depth
	}
}

func (t *tracer) TransitionEnd(tx *am.Transition) {
	t.w.depth--
	if q := tx.Mutation.QueueTick; q > 0 {
		t.w.order = append(t.w.order, q)
		t.w.ended[q] = true
	}
	acc := "x"
	if tx.IsAccepted.Load() {
		acc = "ok"
	}
	t.w.log = append(t.w.log, fmt.Sprintf("%s%v:%s", tx.Type(), tx.CalledStates(), acc))
}

func (w *world) enter(name string) {
	w.in++
	if w.in > w.maxIn {
		w.maxIn = w.in
	}
	vsched.Yield("in:" + name)
}
func (w *world) leave() { w.in-- }

// call runs a mutation as thread `who`, records the result and, when it was
// queued, subscribes to WhenQueue(tick) at once.
func (w *world) call(who string, f func() am.Result) {
	r := f()
	w.results = append(w.results, res{who, r})
	if r >= am.Queued {
		w.chans = append(w.chans, sub{who, r, w.m.WhenQueue(r)})
	}
}

type driverDef struct {
	name     string
	schema   am.Schema
	handlers bool
	// handlersG: AState queues three mutations and waits on their queue ticks
	// (two waiters on the first, one on the last)
	handlersG bool
	limit     uint16
	bound     map[string]int
	threads   func(w *world) []func()
	names     []string
}

func closed(ch <-chan struct{}) bool {
	select {
	case <-ch:
		return true
	default:
		return false
	}
}

func mkDriver(d driverDef) *sk.Driver {
	var w *world
	return &sk.Driver{
		Name: d.name, Bound: d.bound, Params: map[string]any{"handlers": d.handlers},
		Body: func(r *sk.Run) {
			w = &world{r: r, ended: map[uint64]bool{}}
			opts := &am.Opts{Id: "m", Tracers: []am.Tracer{&tracer{&am.TracerNoOp{Id: "t"}, w}}}
			if d.limit > 0 {
				opts.QueueLimit = d.limit
			}
			w.m = am.New(context.Background(), d.schema, opts)
			if d.handlers {
				bindHandlers(w)
			}
			if d.handlersG {
				m := w.m
				m.HandlersBindMaps(nil, map[string]am.HandlerFinal{"AState": func(e *am.Event) {
					w.enter("AState")
					mm := e.Machine()
					for _, st := range []string{"B", "C", "D"} {
						r := mm.Add1(st, nil)
						w.results = append(w.results, res{"AState/" + st, r})
						if r >= am.Queued {
							w.chans = append(w.chans, sub{"AState/" + st, r, mm.WhenQueue(r)})
							if st == "B" {
								w.chans = append(w.chans, sub{"AState/" + st + "'", r, mm.WhenQueue(r)})
							}
						}
					}
					w.leave()
				}})
			}
			var joins []func()
			for i, th := range d.threads(w) {
				joins = append(joins, sk.Go(d.names[i], th))
			}
			for _, j := range joins {
				j()
			}
		},
		Cleanup: func(r *sk.Run) {
			// quiescence: every caller returned (or the scheduler gave up)
			s := r.S
			if s.Deadlock {
				r.Violate("deadlock", "no thread can run while some wait for a lock")
			}
			if len(s.Stuck) > 0 {
				r.Violate("blocked", "threads still blocked at the horizon: %v", s.Stuck)
			}
			m := w.m
			if len(r.Held) > 0 {
				r.Violate("lock-leaked", "locks still held after every caller returned: %v", r.Held)
			}
			if w.maxIn > 1 {
				r.Violate("overlap", "%d handlers/evals of one machine ran concurrently", w.maxIn)
			}
			if w.maxDepth > 1 {
				r.Violate("nested", "transition nesting depth %d", w.maxDepth)
			}
			for i := 1; i < len(w.order); i++ {
				if w.order[i] <= w.order[i-1] {
					r.Violate("order", "queue ticks processed out of order: %v", w.order)
				}
			}
			if r.Wedged() {
				r.Observe("wedged log=%v", w.log)
				return // the machine cannot be touched without blocking for real
			}
			if len(s.Stuck) == 0 {
				ql := m.QueueLen()
				var lost []string
				for _, x := range w.results {
					if x.r >= am.Queued && !w.ended[uint64(x.r)] {
						lost = append(lost, fmt.Sprintf("%s:tick%d", x.who, x.r))
					}
				}
				if ql != 0 || len(lost) > 0 {
					r.Violate("stranded", "idle machine with queue length %d; queued but never processed: %v (processed ticks %v)", ql, lost, w.order)
				}
				for _, c := range w.chans {
					if w.ended[uint64(c.tick)] && !closed(c.ch) {
						r.Violate("whenqueue-open", "WhenQueue(%d) of %s still open although the mutation was processed (log %v)", c.tick, c.who, w.log)
					}
				}
			}
			var rs []string
			for _, x := range w.results {
				v := fmt.Sprint(x.r)
				if x.r >= am.Queued {
					v = "queued"
				}
				rs = append(rs, x.who+"="+v)
			}
			// order of result recording depends on the schedule: sort for the outcome key
			r.Observe("res[%s] q=%d log=%v end=%s", strings.Join(kit.Sorted(rs), ","), m.QueueLen(), w.log, m.StringAll())
			m.Dispose()
			<-m.WhenDisposed()
			time.Sleep(time.Minute)
		},
	}
}

func bindHandlers(w *world) {
	m := w.m
	fin := map[string]am.HandlerFinal{
		"AState": func(e *am.Event) {
			w.enter("AState")
			// a mutation issued during a transition is queued, not nested
			r := e.Machine().Add1("B", nil)
			w.results = append(w.results, res{"AState", r})
			w.leave()
		},
		"BState": func(e *am.Event) { w.enter("BState"); w.leave() },
		"CState": func(e *am.Event) { w.enter("CState"); w.leave() },
	}
	neg := map[string]am.HandlerNegotiation{
		"DEnter": func(e *am.Event) bool { w.enter("DEnter"); w.leave(); return false }, // veto
	}
	if _, err := m.HandlersBindMaps(neg, fin); err != nil {
		panic(err)
	}
}

var plain = am.Schema{"A": {}, "B": {}, "C": {}, "D": {}, "R": {Require: am.S{"Z"}}, "Z": {}}

func drivers() []*sk.Driver {
	b := func(q, t int) map[string]int { return map[string]int{"quick": q, "thorough": t} }
	defs := []driverDef{
		{name: "a:add|add", schema: plain, bound: b(2, 4), names: []string{"t1", "t2"},
			threads: func(w *world) []func() {
				return []func(){
					func() { w.call("t1", func() am.Result { return w.m.Add1("A", nil) }) },
					func() { w.call("t2", func() am.Result { return w.m.Add1("B", nil) }) },
				}
			}},
		{name: "a2:add|add-canceled", schema: plain, bound: b(2, 4), names: []string{"t1", "t2"},
			threads: func(w *world) []func() {
				return []func(){
					func() { w.call("t1", func() am.Result { return w.m.Add1("A", nil) }) },
					// R requires Z: rejected by relations (canceled)
					func() { w.call("t2", func() am.Result { return w.m.Add1("R", nil) }) },
				}
			}},
		{name: "b:add|remove|set", schema: plain, bound: b(2, 3), names: []string{"t1", "t2", "t3"},
			threads: func(w *world) []func() {
				return []func(){
					func() { w.call("t1", func() am.Result { return w.m.Add1("A", nil) }) },
					func() { w.call("t2", func() am.Result { return w.m.Remove1("A", nil) }) },
					func() { w.call("t3", func() am.Result { return w.m.Set(am.S{"B"}, nil) }) },
				}
			}},
		{name: "c:handler-mutates|add", schema: plain, handlers: true, bound: b(2, 3), names: []string{"t1", "t2"},
			threads: func(w *world) []func() {
				return []func(){
					func() { w.call("t1", func() am.Result { return w.m.Add1("A", nil) }) },
					func() { w.call("t2", func() am.Result { return w.m.Add1("C", nil) }) },
				}
			}},
		{name: "c2:handler-mutates|veto", schema: plain, handlers: true, bound: b(2, 3), names: []string{"t1", "t2"},
			threads: func(w *world) []func() {
				return []func(){
					func() { w.call("t1", func() am.Result { return w.m.Add1("A", nil) }) },
					func() { w.call("t2", func() am.Result { return w.m.Add1("D", nil) }) }, // vetoed by DEnter
				}
			}},
		{name: "d:eval|add", schema: plain, handlers: true, bound: b(2, 3), names: []string{"t1", "t2"},
			threads: func(w *world) []func() {
				return []func(){
					func() {
						ok := w.m.Eval("probe", func() { w.enter("eval"); w.leave() }, nil)
						w.results = append(w.results, res{"eval", map[bool]am.Result{true: am.Executed, false: am.Canceled}[ok]})
					},
					func() { w.call("t2", func() am.Result { return w.m.Add1("C", nil) }) },
				}
			}},
		{name: "e:canadd|add", schema: plain, handlers: true, bound: b(2, 3), names: []string{"t1", "t2"},
			threads: func(w *world) []func() {
				return []func(){
					func() { w.results = append(w.results, res{"can", w.m.CanAdd1("C", nil)}) },
					func() { w.call("t2", func() am.Result { return w.m.Add1("B", nil) }) },
				}
			}},
		{name: "g:handler-queues-three", schema: plain, bound: b(1, 2), names: []string{"t1", "t2"}, handlersG: true,
			threads: func(w *world) []func() {
				return []func(){
					func() { w.call("t1", func() am.Result { return w.m.Add1("A", nil) }) },
					func() { w.call("t2", func() am.Result { return w.m.Add1("Z", nil) }) },
				}
			}},
		{name: "f:three-limit2", schema: plain, limit: 2, bound: b(2, 3), names: []string{"t1", "t2", "t3"},
			threads: func(w *world) []func() {
				return []func(){
					func() { w.call("t1", func() am.Result { return w.m.Add1("A", nil) }) },
					func() { w.call("t2", func() am.Result { return w.m.Add1("B", nil) }) },
					func() { w.call("t3", func() am.Result { return w.m.Add1("C", nil) }) },
				}
			}},
	}
	var out []*sk.Driver
	for _, d := range defs {
		out = append(out, mkDriver(d))
	}
	return out
}

func TestCheck(t *testing.T) {
	sk.Init("C04")
	rep := kit.NewReport("C04")
	defer rep.Write()
	defer sk.Finish(rep)
	ds := drivers()
	if kit.ReplayPath() != "" {
		var rp sk.Replay
		if err := kit.LoadReplay(&rp); err != nil {
			t.Fatal(err)
		}
		for _, d := range ds {
			if d.Name == rp.Driver {
				sk.ReplayDriver(t, rep, d, rp, "c04:")
			}
		}
		return
	}
	only := os.Getenv("AMC_DRIVER")
	for _, d := range ds {
		if only != "" && !strings.HasPrefix(d.Name, only) {
			continue
		}
		if rep.OverBudget() {
			rep.NotExhaustive("budget: driver " + d.Name + " not started")
			continue
		}
		st := sk.ExploreDriver(t, rep, d, "c04:")
		if len(st.Outcomes) > 0 {
			for o := range st.Outcomes {
				rep.Sample(6, map[string]any{"driver": d.Name, "outcome": o})
				break
			}
		}
	}
}
