// C13 - Dispose releases every waiter and is safe from anywhere.
//
// SCHED: a small workload (handlers, outstanding When*/WhenTime/WhenQueue
// subscriptions, a state context, OnDispose handlers, a mutating thread, an
// Eval) runs against a dispose variant landing at every schedule point:
// Dispose, Dispose twice, concurrent Dispose, parent-context cancel, Dispose
// from inside a handler, helpers.Dispose with the Disposed state mixin,
// DisposeForce.
package c13

import (
	"context"
	"fmt"
	"os"
	"strings"
	"testing"
	"time"

	"amc/kit"
	sk "amc/schedkit"

	amhelp "github.com/pancsta/asyncmachine-go/pkg/helpers"
	am "github.com/pancsta/asyncmachine-go/pkg/machine"
	ssam "github.com/pancsta/asyncmachine-go/pkg/states"
	"github.com/pancsta/asyncmachine-go/pkg/x/vsched"
)

type world struct {
	m        *am.Machine
	cancel   context.CancelFunc
	chans    map[string]<-chan struct{}
	sctx     context.Context
	dispRuns [2]int
	evalRet  *bool
	force    bool
	// fake-time instants: Eval returned / WhenDisposed observed closed
	evalAt, disposedAt time.Time
}

type handlers struct {
	*ssam.DisposedHandlers
	w *world
	// in-handler dispose variant
	disposeInA bool
}

func (h *handlers) AState(e *am.Event) {
	vsched.Yield("AState")
	if h.disposeInA {
		e.Machine().Dispose()
	}
}

func (h *handlers) StartEnd(e *am.Event) { vsched.Yield("StartEnd") }

type def struct {
	name    string
	bound   map[string]int
	variant string // dispose | twice | concurrent | ctx | inhandler | helper | force
	mixin   bool   // schema includes the Disposed states + handlers
	start   bool   // Start state active
	eval    bool   // thread E calls Eval with a live ctx
}

func closed(ch <-chan struct{}) bool {
	select {
	case <-ch:
		return true
	default:
		return false
	}
}

func mk(d def) *sk.Driver {
	var w *world
	return &sk.Driver{Name: d.name, Bound: d.bound, Params: d.variant, AllowPanics: d.variant == "force",
		// quick: any single deviation (unrestricted); thorough: two deviations,
		// restricted to switches to the disposing / evaluating / mutating
		// harness threads and the goroutines forked by Dispose
		DeviateTo: map[string][]string{"thorough": {"D", "D2", "E", "A", "Dispose:*", "doDispose:*"}},
		Body: func(r *sk.Run) {
			w = &world{chans: map[string]<-chan struct{}{}, force: d.variant == "force"}
			ctx, cancel := context.WithCancel(context.Background())
			w.cancel = cancel
			sc := am.Schema{"A": {}, "B": {}, "Start": {}}
			names := am.S{"A", "B", "Start"}
			if d.mixin {
				sc = am.SchemaMerge(sc, ssam.DisposedSchema)
				names = append(names, ssam.DisposedStates.Names()...)
			}
			names = append(names, am.StateException)
			m := am.New(ctx, sc, &am.Opts{Id: "m"})
			w.m = m
			if err := m.VerifyStates(names); err != nil {
				panic(err)
			}
			h := &handlers{DisposedHandlers: &ssam.DisposedHandlers{}, w: w, disposeInA: d.variant == "inhandler"}
			if _, err := m.HandlersBind(h); err != nil {
				panic(err)
			}
			if d.start {
				m.Add1("Start", nil)
			}
			m.OnDispose(func(id string, ctx context.Context) { w.dispRuns[0]++ })
			m.OnDispose(func(id string, ctx context.Context) { w.dispRuns[1]++ })
			w.chans["When1(B)"] = m.When1("B", nil)
			w.chans["WhenNot1(Exception)+A"] = m.When(am.S{"A", "B"}, nil)
			w.chans["WhenTime(B>=5)"] = m.WhenTime1("B", 5, nil)
			w.chans["WhenQueue(far)"] = m.WhenQueue(am.Result(100))
			w.chans["WhenQuery(never)"] = m.WhenQuery(func(am.Clock) bool { return false }, nil)
			w.sctx = m.NewStateCtx("Start")
			var joins []func()
			joins = append(joins, sk.Go("A", func() {
				m.Add1("A", nil)
				m.Remove1("A", nil)
			}))
			if d.eval {
				// a long eval timeout: what releases the Eval has to be the
				// disposal, not its own timer
				m.EvalTimeout = 20 * time.Second
				go func() {
					<-m.WhenDisposed()
					w.disposedAt = time.Now()
				}()
				joins = append(joins, sk.Go("E", func() {
					ectx, c := context.WithCancel(context.Background())
					defer c()
					ok := m.Eval("probe", func() { vsched.Yield("eval") }, ectx)
					w.evalRet = &ok
					w.evalAt = time.Now()
				}))
			}
			disp := func() {
				switch d.variant {
				case "dispose", "twice", "concurrent":
					m.Dispose()
					if d.variant == "twice" {
						m.Dispose()
					}
				case "ctx":
					cancel()
				case "helper":
					amhelp.Dispose(m)
				case "force":
					m.DisposeForce()
				case "inhandler":
					// the handler of A disposes
				}
			}
			joins = append(joins, sk.Go("D", disp))
			if d.variant == "concurrent" {
				joins = append(joins, sk.Go("D2", func() { m.Dispose() }))
			}
			for _, j := range joins {
				j()
			}
			// wait for the end of the disposal (fake time)
			if !sk.Wait(m.WhenDisposed(), time.Minute, "WhenDisposed") {
				r.Violate("not-disposed", "WhenDisposed not closed one minute (fake) after %s", d.variant)
				return
			}
			sk.Sleep(3 * m.DisposeTimeout)
		},
		Cleanup: func(r *sk.Run) {
			s := r.S
			if s.Deadlock {
				r.Violate("deadlock", "deadlock while disposing: %v", s.DeadlockInfo)
			}
			if len(s.Stuck) > 0 {
				r.Violate("blocked", "threads blocked forever: %v", s.Stuck)
			}
			m := w.m
			// known finding C13-a has a narrow signature: a nil current
			// transition inside Machine.handle (two queue processors)
			for i := range r.Viol {
				v := &r.Viol[i]
				if v.Sig == "panic" && strings.Contains(v.Detail, "nil pointer dereference") && strings.Contains(v.Detail, "transition.go") && strings.Contains(v.Detail, "machine.go") {
					v.Sig = "panic-nil-transition"
				}
			}
			r.Observe("variant=%s disposed=%v handlers=%v", d.variant, m.IsDisposed(), w.dispRuns)
			if r.Wedged() || !closed(m.WhenDisposed()) {
				w.cancel()
				return
			}
			// released
			for name, ch := range w.chans {
				if !closed(ch) {
					r.Violate("waiter-open", "%s still open after WhenDisposed closed", name)
				}
			}
			if w.sctx.Err() == nil {
				r.Violate("statectx-alive", "state context still alive after disposal")
			}
			if !w.force {
				for i, n := range w.dispRuns {
					if n != 1 {
						r.Violate("dispose-handler", "OnDispose handler #%d ran %d times", i, n)
					}
				}
			}
			// the machine's goroutines are gone
			for _, n := range s.Alive() {
				if strings.Contains(n, "handlerLoop") {
					r.Violate("handler-goroutine", "handler loop goroutine still alive after disposal: %s", n)
				}
			}
			// later calls return promptly with neutral values
			done := make(chan []string, 1)
			go func() {
				var bad []string
				chk := func(name string, ok bool, got any) {
					if !ok {
						bad = append(bad, fmt.Sprintf("%s returned %v", name, got))
					}
				}
				defer func() {
					if p := recover(); p != nil {
						bad = append(bad, fmt.Sprintf("PANIC: %v", p))
					}
					done <- bad
				}()
				r1 := m.Add1("B", nil)
				chk("Add1", r1 == am.Canceled, r1)
				r2 := m.Remove1("A", nil)
				chk("Remove1", r2 == am.Canceled, r2)
				r3 := m.Set(am.S{"B"}, nil)
				chk("Set", r3 == am.Canceled, r3)
				r4 := m.CanAdd1("B", nil)
				chk("CanAdd1", r4 == am.Canceled, r4)
				chk("Is1", !m.Is1("A"), true)
				chk("Any1", !m.Any1("A", "B"), true)
				chk("ActiveStates", len(m.ActiveStates(nil)) == 0, m.ActiveStates(nil))
				chk("Eval", !m.Eval("x", func() {}, nil), true)
				chk("When1", closed(m.When1("B", nil)), "open channel")
				chk("WhenNot1", closed(m.WhenNot1("B", nil)), "open channel")
				chk("WhenTime1", closed(m.WhenTime1("B", 9, nil)), "open channel")
				chk("WhenQueue", closed(m.WhenQueue(am.Result(500))), "open channel")
				chk("WhenDisposed", closed(m.WhenDisposed()), "open channel")
				_ = m.NewStateCtx("A")
				_ = m.String()
				_ = m.StringAll()
				_ = m.Time(nil)
				_ = m.Tick("A")
				_ = m.QueueLen()
				m.Dispose()
			}()
			select {
			case bad := <-done:
				for _, b := range bad {
					sig := "after-dispose"
					if strings.HasPrefix(b, "PANIC") {
						sig = "after-dispose-panic"
					}
					if w.force {
						continue // DisposeForce is documented to cause panics
					}
					r.Violate(sig, "%s", b)
				}
			case <-time.After(time.Minute):
				r.Violate("after-dispose-blocked", "a call on the disposed machine did not return")
			}
			if w.evalRet != nil {
				r.Observe("eval=%v", *w.evalRet)
				// an Eval in flight is a waiter like any other: the disposal
				// releases it, it does not sit out its own timeout
				if late := w.evalAt.Sub(w.disposedAt); !w.disposedAt.IsZero() && late > 50*time.Millisecond {
					r.Violate("eval-late", "Eval returned %v (fake time) after WhenDisposed closed", late)
				}
			}
			w.cancel()
			time.Sleep(time.Minute)
		},
	}
}

func TestCheck(t *testing.T) {
	sk.Init("C13")
	rep := kit.NewReport("C13")
	defer rep.Write()
	defer sk.Finish(rep)
	b := func(q, t int) map[string]int { return map[string]int{"quick": q, "thorough": t} }
	ds := []*sk.Driver{
		mk(def{name: "dispose", variant: "dispose", bound: b(1, 2)}),
		mk(def{name: "dispose-start+eval", variant: "dispose", start: true, eval: true, bound: b(1, 2)}),
		mk(def{name: "twice", variant: "twice", bound: b(1, 2)}),
		mk(def{name: "concurrent", variant: "concurrent", bound: b(1, 2)}),
		mk(def{name: "ctx-cancel-start", variant: "ctx", start: true, bound: b(1, 2)}),
		mk(def{name: "ctx-cancel+eval", variant: "ctx", eval: true, bound: b(1, 2)}),
		mk(def{name: "inhandler", variant: "inhandler", bound: b(1, 2)}),
		mk(def{name: "helper-mixin", variant: "helper", mixin: true, start: true, bound: b(1, 2)}),
		mk(def{name: "force", variant: "force", bound: b(1, 1)}),
	}
	if kit.ReplayPath() != "" {
		var rp sk.Replay
		if err := kit.LoadReplay(&rp); err != nil {
			t.Fatal(err)
		}
		for _, d := range ds {
			if d.Name == rp.Driver {
				sk.ReplayDriver(t, rep, d, rp, "c13:")
			}
		}
		return
	}
	only := os.Getenv("AMC_DRIVER")
	for _, d := range ds {
		if only != "" && !strings.HasPrefix(d.Name, only) {
			continue
		}
		if rep.OverBudget() {
			rep.NotExhaustive("budget: driver " + d.Name + " not started")
			continue
		}
		sk.ExploreDriver(t, rep, d, "c13:")
	}
	rep.Sample(2, map[string]any{"driver": "dispose", "workload": "handlers; When1, When, WhenTime, WhenQueue, WhenQuery, NewStateCtx outstanding; 2 OnDispose handlers; thread A Add1(A);Remove1(A); thread D disposes"})
}
