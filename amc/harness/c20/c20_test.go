// C20 - public helpers are total and obey their algebra.
//
// Bounded-exhaustive: (A) set/time algebra over all small lists of a 4-name
// universe against a set-theoretic reference; (B) totality: every exported
// method of *am.Machine (reflection) and every exported non-generic function of
// pkg/machine, pkg/helpers, pkg/integrations (registry generated from the
// current tree) is called with every combination (capped) of argument values
// from a per-type grid, on machines in 5 lifecycle phases, each call in its own
// fake-time bubble inside a child process (a fatal error is attributed through
// a write-ahead log); (C) wait/ask helpers vs what really happened; (D) getters
// documented as copies.
package c20

import (
	"bufio"
	"context"
	"encoding/json"
	"errors"
	"fmt"
	"os"
	"os/exec"
	"reflect"
	"runtime/pprof"
	"slices"
	"sort"
	"strings"
	"testing"
	"testing/synctest"
	"time"

	"amc/kit"

	amhelp "github.com/pancsta/asyncmachine-go/pkg/helpers"
	am "github.com/pancsta/asyncmachine-go/pkg/machine"
)

type funcEntry struct {
	Pkg, Name string
	Fn        reflect.Value
}

type funcDoc struct {
	Doc    string
	Params []string
}

var (
	funcRegistry []funcEntry
	genericFuncs []string
	funcInfo     map[string]funcDoc
)

// nilCtxAllowed: a nil context is passed only where the doc comment says the
// context is optional / may be nil.
func nilCtxAllowed(name string) bool {
	d := strings.ToLower(funcInfo[name].Doc)
	return strings.Contains(d, "optional context") || strings.Contains(d, "nil context") || strings.Contains(d, "ctx: optional")
}

// nilEventAllowed: traced (Ev*) variants take an optional source event.
func nilEventAllowed(name string) bool {
	base := name[strings.Index(name, ".")+1:]
	return strings.HasPrefix(base, "Ev") || strings.HasPrefix(base, "AskEv") || strings.HasSuffix(base, "Ev") || strings.HasPrefix(base, "Log")
}

// waits: functions that by contract wait for the machine (a state, the queue,
// a timer); "blocks" is not a verdict for them and they are not called from
// inside a handler (the queue cannot progress there).
func waits(name string) bool {
	base := name[strings.Index(name, ".")+1:]
	for _, k := range []string{"Sync", "Async", "WaitFor", "Wait", "Ask", "Cant", "Eval", "Interval", "Dispose", "GroupWhen", "Healthcheck"} {
		if strings.Contains(base, k) {
			return true
		}
	}
	return false
}

// ---------------------------------------------------------------- (A) algebra

func setOf(s am.S) map[string]bool {
	m := map[string]bool{}
	for _, x := range s {
		m[x] = true
	}
	return m
}

func noDups(s am.S) bool { return len(setOf(s)) == len(s) }

func sameSet(a am.S, want map[string]bool) bool {
	got := setOf(a)
	if len(got) != len(want) {
		return false
	}
	for k := range want {
		if !got[k] {
			return false
		}
	}
	return true
}

func lists(u []string, maxLen int) []am.S {
	out := []am.S{nil, {}}
	var rec func(cur am.S)
	rec = func(cur am.S) {
		if len(cur) > 0 {
			out = append(out, slices.Clone(cur))
		}
		if len(cur) == maxLen {
			return
		}
		for _, x := range u {
			rec(append(cur, x))
		}
	}
	rec(nil)
	return out
}

func algebra(rep *kit.Report) {
	u := []string{"A", "B", "C"}
	ls := lists(u, 3)
	if kit.Thorough() {
		// 4 names, lists up to length 4: 342 lists, 116,964 pairs
		u = []string{"A", "B", "C", "D"}
		ls = lists(u, 4)
	}
	bad := func(sig, format string, a ...any) {
		rep.Violate("c20:algebra:"+sig, fmt.Sprintf(format, a...), map[string]any{"part": "algebra", "sig": sig})
	}
	safe := func(sig string, f func()) {
		defer func() {
			if p := recover(); p != nil {
				bad(sig+":panic", "%s panicked: %v", sig, p)
			}
		}()
		f()
	}
	for _, a := range ls {
		for _, b := range ls {
			rep.Add("evaluations", 1)
			rep.Add("transitions", 1)
			if !noDups(a) || !noDups(b) {
				rep.Add("nontrivial", 1)
			}
			A, B := setOf(a), setOf(b)
			union, inter, diff := map[string]bool{}, map[string]bool{}, map[string]bool{}
			for k := range A {
				union[k] = true
				if B[k] {
					inter[k] = true
				} else {
					diff[k] = true
				}
			}
			for k := range B {
				union[k] = true
			}
			eq := len(diff) == 0 && len(A) == len(B)
			ca, cb := slices.Clone(a), slices.Clone(b)
			safe("S.Add", func() {
				if r := a.Add(b); !sameSet(r, union) || !noDups(r) {
					bad("S.Add", "%v.Add(%v) = %v, want the union without duplicates", a, b, r)
				}
			})
			safe("SAdd", func() {
				if r := am.SAdd(a, b); !sameSet(r, union) || !noDups(r) {
					bad("SAdd", "SAdd(%v,%v) = %v", a, b, r)
				}
			})
			safe("S.Delete", func() {
				if r := a.Delete(b); !sameSet(r, diff) {
					bad("S.Delete", "%v.Delete(%v) = %v, want %v without the deleted names", a, b, r, a)
				}
			})
			safe("SRem", func() {
				if r := am.SRem(a, b); !sameSet(r, diff) {
					bad("SRem", "SRem(%v,%v) = %v", a, b, r)
				}
			})
			safe("S.Sub", func() {
				if r := a.Sub(b); !sameSet(r, diff) {
					bad("S.Sub", "%v.Sub(%v) = %v", a, b, r)
				}
				if r := am.StatesDiff(a, b); !sameSet(r, diff) {
					bad("StatesDiff", "StatesDiff(%v,%v) = %v", a, b, r)
				}
			})
			safe("S.Shared", func() {
				if r := a.Shared(b); !sameSet(r, inter) {
					bad("S.Shared", "%v.Shared(%v) = %v", a, b, r)
				}
				if r := am.StatesShared(a, b); !sameSet(r, inter) {
					bad("StatesShared", "StatesShared(%v,%v) = %v", a, b, r)
				}
			})
			safe("S.Equal", func() {
				if r := a.Equal(b); r != eq {
					bad("S.Equal", "%v.Equal(%v) = %v, want %v", a, b, r, eq)
				}
				if r := am.StatesEqual(a, b); r != eq {
					bad("StatesEqual", "StatesEqual(%v,%v) = %v, want %v", a, b, r, eq)
				}
			})
			if !slices.Equal(a, ca) || !slices.Equal(b, cb) {
				bad("mutates-input", "an S helper modified its inputs: %v/%v -> %v/%v", ca, cb, a, b)
			}
		}
		safe("S.Unique", func() {
			if r := a.Unique(); !sameSet(r, setOf(a)) || !noDups(r) {
				bad("S.Unique", "%v.Unique() = %v", a, r)
			}
		})
		for _, x := range u {
			safe("S.Add1/Delete1", func() {
				w := setOf(a)
				w[x] = true
				if r := a.Add1(x); !sameSet(r, w) || !noDups(r) {
					bad("S.Add1", "%v.Add1(%s) = %v", a, x, r)
				}
				w2 := setOf(a)
				delete(w2, x)
				if r := a.Delete1(x); !sameSet(r, w2) {
					bad("S.Delete1", "%v.Delete1(%s) = %v, want %s removed", a, x, r, x)
				}
			})
		}
	}
	// ParseStates: drops unknown names and duplicates, keeps known ones
	m := am.New(context.Background(), am.Schema{"A": {}, "B": {}, "C": {}}, nil)
	psLen := 3
	if kit.Thorough() {
		psLen = 5
	}
	for _, a := range lists([]string{"A", "B", "Z"}, psLen) {
		rep.Add("evaluations", 1)
		safe("ParseStates", func() {
			want := setOf(a)
			delete(want, "Z")
			if r := m.ParseStates(a); !sameSet(r, want) || !noDups(r) {
				bad("ParseStates", "ParseStates(%v) = %v, want the known names %v once each", a, r, kit.Sorted(keysOf(want)))
			}
		})
	}
	// Time algebra on small vectors
	var times []am.Time
	tmax := uint64(3)
	if kit.Thorough() {
		tmax = 6
	}
	for x := uint64(0); x < tmax; x++ {
		for y := uint64(0); y < tmax; y++ {
			times = append(times, am.Time{x, y})
		}
	}
	idxSets := [][]int{nil, {}, {0}, {1}, {0, 1}, {-1}, {0, -1}}
	for _, t1 := range times {
		for _, t2 := range times {
			rep.Add("evaluations", 1)
			safe("Time.Add/DiffSince", func() {
				s := t1.Add(t2)
				if s[0] != t1[0]+t2[0] || s[1] != t1[1]+t2[1] {
					bad("Time.Add", "%v.Add(%v) = %v", t1, t2, s)
				}
				if t1[0] >= t2[0] && t1[1] >= t2[1] {
					d := t1.DiffSince(t2)
					if d[0] != t1[0]-t2[0] || d[1] != t1[1]-t2[1] {
						bad("Time.DiffSince", "%v.DiffSince(%v) = %v", t1, t2, d)
					}
				}
				if e := t1.Equal(true, t2); e != (t1[0] == t2[0] && t1[1] == t2[1]) {
					bad("Time.Equal", "%v.Equal(true,%v) = %v", t1, t2, e)
				}
			})
		}
		for _, ix := range idxSets {
			safe("Time.Is/Not/Any/Sum/Filter", func() {
				allActive, noneActive := len(ix) > 0, true
				var sum uint64
				for _, i := range ix {
					if i == -1 {
						allActive = false
						continue
					}
					if t1[i]%2 == 0 {
						allActive = false
					} else {
						noneActive = false
					}
					sum += t1[i]
				}
				if r := t1.Is(ix); r != allActive {
					bad("Time.Is", "%v.Is(%v) = %v, want %v", t1, ix, r, allActive)
				}
				if r := t1.Not(ix); r != noneActive {
					bad("Time.Not", "%v.Not(%v) = %v, want %v", t1, ix, r, noneActive)
				}
				if r := t1.Any(ix); r != allActive {
					bad("Time.Any", "%v.Any(%v) = %v", t1, ix, r)
				}
				if ix != nil && !slices.Contains(ix, -1) {
					if r := t1.Sum(ix); r != sum {
						bad("Time.Sum", "%v.Sum(%v) = %d, want %d", t1, ix, r, sum)
					}
					f := t1.Filter(ix)
					for k, i := range ix {
						if f[k] != t1[i] {
							bad("Time.Filter", "%v.Filter(%v) = %v", t1, ix, f)
						}
					}
				}
			})
		}
		if r := t1.Sum(nil); r != t1[0]+t1[1] {
			bad("Time.Sum", "%v.Sum(nil) = %d", t1, r)
		}
	}
	for tick := uint64(0); tick < 6+tmax*10; tick++ {
		act := tick%2 == 1
		if am.IsActiveTick(tick) != act {
			bad("IsActiveTick", "IsActiveTick(%d)", tick)
		}
		na, ni := am.NextActive(tick), am.NextInactive(tick)
		if na <= tick || na%2 != 1 || na > tick+2 || ni <= tick || ni%2 != 0 || ni > tick+2 {
			bad("NextActive", "NextActive(%d)=%d NextInactive=%d", tick, na, ni)
		}
		if uint64(am.NextActiveIn(tick)) != na-tick || uint64(am.NextInactiveIn(tick)) != ni-tick {
			bad("NextActiveIn", "NextActiveIn(%d)=%d NextInactiveIn=%d", tick, am.NextActiveIn(tick), am.NextInactiveIn(tick))
		}
	}
}

func keysOf(m map[string]bool) []string {
	var o []string
	for k := range m {
		o = append(o, k)
	}
	return o
}

// -------------------------------------------------------------- (B) totality

var phases = []string{"fresh", "errored", "grown", "inhandler", "disposed"}

type envT struct {
	m      *am.Machine
	ctxs   []context.Context
	event  *am.Event // captured from a real handler
	live   *am.Event // the event of the handler the call is made from (inhandler)
	cancel context.CancelFunc
}

var testSchema = am.Schema{"A": {}, "B": {Multi: true}, "C": {Require: am.S{"A"}}, "D": {Auto: true, Require: am.S{"C"}}}
var testNames = am.S{"A", "B", "C", "D", am.StateException}

type capHandlers struct{ ev **am.Event }

func (h *capHandlers) AState(e *am.Event) { *h.ev = e }

// newEnv builds a machine in the given phase (inhandler is handled by the
// caller: the call itself is made from a handler).
func newEnv(phase string) *envT {
	e := &envT{}
	ctx, cancel := context.WithCancel(context.Background())
	e.cancel = cancel
	dead, c2 := context.WithCancel(context.Background())
	c2()
	e.ctxs = []context.Context{nil, ctx, dead}
	m := am.New(ctx, testSchema, &am.Opts{Id: "c20"})
	if err := m.VerifyStates(testNames); err != nil {
		panic(err)
	}
	e.m = m
	m.HandlersBind(&capHandlers{&e.event})
	m.Add1("A", nil)
	m.Remove1("A", nil)
	switch phase {
	case "errored":
		m.AddErr(errors.New("boom"), nil)
	case "grown":
		sc := m.Schema()
		sc["G"] = am.State{}
		if err := m.SetSchema(sc, append(slices.Clone(m.StateNames()), "G")); err != nil {
			panic(err)
		}
	case "disposed":
		m.Dispose()
		<-m.WhenDisposed()
	}
	return e
}

func (e *envT) done() {
	e.cancel()
	e.m.Dispose()
	select {
	case <-e.m.WhenDisposed():
	case <-time.After(time.Minute):
	}
	time.Sleep(30 * time.Second)
}

var (
	tS        = reflect.TypeOf(am.S{})
	tA        = reflect.TypeOf(am.A{})
	tCtx      = reflect.TypeOf((*context.Context)(nil)).Elem()
	tEvent    = reflect.TypeOf((*am.Event)(nil))
	tTime     = reflect.TypeOf(am.Time{})
	tClock    = reflect.TypeOf(am.Clock{})
	tMach     = reflect.TypeOf((*am.Machine)(nil))
	tApi      = reflect.TypeOf((*am.Api)(nil)).Elem()
	tSchema   = reflect.TypeOf(am.Schema{})
	tState    = reflect.TypeOf(am.State{})
	tTracer   = reflect.TypeOf((*am.Tracer)(nil)).Elem()
	tSer      = reflect.TypeOf((*am.Serialized)(nil))
	tErr      = reflect.TypeOf((*error)(nil)).Elem()
	tDuration = reflect.TypeOf(time.Duration(0))
	tAny      = reflect.TypeOf((*any)(nil)).Elem()
	tMut      = reflect.TypeOf((*am.Mutation)(nil))
	tStatePtr = reflect.TypeOf((*am.State)(nil))
)

// grid returns candidate values for a parameter type, or nil when the type is
// not supported (the function is then listed as skipped).
func grid(t reflect.Type, e *envT, name string) []reflect.Value {
	v := reflect.ValueOf
	switch t {
	case tS:
		return []reflect.Value{v(am.S{"A"}), v(am.S{"A", "B"}), v(am.S{"B", "B"}), v(am.S{}), reflect.Zero(tS)}
	case tA:
		return []reflect.Value{reflect.Zero(tA), v(am.A{}), v(am.A{"k": 1})}
	case tCtx:
		var out []reflect.Value
		if nilCtxAllowed(name) {
			out = append(out, reflect.Zero(tCtx))
		}
		for _, c := range e.ctxs[1:] {
			out = append(out, v(c))
		}
		return out
	case tEvent:
		var out []reflect.Value
		if nilEventAllowed(name) {
			out = append(out, reflect.Zero(tEvent))
		}
		out = append(out, v(&am.Event{Name: "AState"})) // an event without a machine
		if e.live != nil {
			out = append(out, v(e.live)) // the running handler's own event
		} else if e.event != nil {
			out = append(out, v(e.event))
		}
		return out
	case tTime:
		full := e.m.Time(nil)
		if len(full) == 0 {
			full = am.Time{0, 0, 0, 0, 0}
		}
		return []reflect.Value{reflect.Zero(tTime), v(full)}
	case tClock:
		return []reflect.Value{reflect.Zero(tClock), v(am.Clock{"A": 1})}
	case tMach:
		return []reflect.Value{v(e.m)}
	case tApi:
		return []reflect.Value{v(e.m)}
	case tSchema:
		return []reflect.Value{v(am.Schema{"A": {}, "B": {}}), reflect.Zero(tSchema)}
	case tState:
		return []reflect.Value{v(am.State{}), v(am.State{Add: am.S{"A"}, Tags: []string{"x:1"}})}
	case tStatePtr:
		return []reflect.Value{v(&am.State{Require: am.S{"A"}})}
	case tTracer:
		return []reflect.Value{v(am.Tracer(kit.NewRecTracer("t")))}
	case tErr:
		return []reflect.Value{reflect.Zero(tErr), v(errors.New("e"))}
	case tDuration:
		return []reflect.Value{v(time.Duration(0)), v(time.Millisecond)}
	case tAny:
		return []reflect.Value{reflect.Zero(tAny), v(&struct{}{})}
	case tMut:
		return []reflect.Value{v(&am.Mutation{Type: am.MutationAdd, Called: []int{0}})}
	case tSer:
		if s, _, err := e.m.Export(); err == nil && s != nil {
			return []reflect.Value{v(s)}
		}
		return []reflect.Value{v(&am.Serialized{ID: "c20", StateNames: testNames, Time: am.Time{0, 0, 0, 0, 0}})}
	}
	switch t.Kind() {
	case reflect.String:
		return []reflect.Value{reflect.ValueOf("A").Convert(t)}
	case reflect.Bool:
		return []reflect.Value{v(false), v(true)}
	case reflect.Int, reflect.Int8, reflect.Int16, reflect.Int32, reflect.Int64:
		return []reflect.Value{reflect.ValueOf(0).Convert(t), reflect.ValueOf(1).Convert(t), reflect.ValueOf(2).Convert(t)}
	case reflect.Uint, reflect.Uint8, reflect.Uint16, reflect.Uint32, reflect.Uint64:
		return []reflect.Value{reflect.ValueOf(0).Convert(t), reflect.ValueOf(1).Convert(t), reflect.ValueOf(3).Convert(t)}
	case reflect.Func:
		// a no-op function of the right type returning zero values
		return []reflect.Value{reflect.MakeFunc(t, func(args []reflect.Value) []reflect.Value {
			out := make([]reflect.Value, t.NumOut())
			for i := range out {
				out[i] = reflect.Zero(t.Out(i))
			}
			return out
		})}
	case reflect.Slice:
		switch t.Elem().Kind() {
		case reflect.Int:
			return []reflect.Value{reflect.Zero(t), reflect.ValueOf([]int{0}).Convert(t)}
		case reflect.String:
			return []reflect.Value{reflect.Zero(t), reflect.ValueOf([]string{"A"}).Convert(t)}
		}
		if t.Elem() == tS {
			return []reflect.Value{reflect.Zero(t), v([]am.S{{"A"}}), v([]am.S{{"A"}, {"B"}})}
		}
		if t.Elem() == tA {
			return []reflect.Value{reflect.Zero(t), v([]am.A{{"k": 1}})}
		}
		if t.Elem() == tCtx {
			return []reflect.Value{reflect.Zero(t)}
		}
		if t.Elem() == tEvent {
			return []reflect.Value{reflect.Zero(t)}
		}
		return []reflect.Value{reflect.Zero(t)}
	case reflect.Map:
		return []reflect.Value{reflect.Zero(t)}
	}
	return nil
}

// documented or out-of-scope functions (reason given in evidence notes).
var skip = map[string]string{
	"Machine.IsTime":  "time and state list lengths must match: covered by C01's view checks",
	"Machine.WasTime": "time and state list lengths must match: covered by C01's view checks",
	"am.NewTime":      "indexes must be within the given time: covered by the algebra part",
	"am.NewTimeIndex": "indexes must be within the given index: covered by the algebra part",
	"am.CtxToEv":      "context must come from EvToCtx",
	"am.EvToCtx":      "context must be non-nil",
	"Machine.Dispose":         "exercised by the disposed phase itself",
	"Machine.DisposeForce":    "documented: will cause panics",
	"Machine.SetSchema":       "exercised by the grown phase; shrinking schemas are rejected by contract",
	"Machine.Import":          "documented as unsafe on a machine that produced transitions",
	"Machine.PanicToErr":      "must be deferred (recover semantics)",
	"Machine.PanicToErrState": "must be deferred (recover semantics)",
	"Machine.OnError":         "stores a callback; called later with the harness' no-op",
	"Machine.AddBreakpoint":   "debug aid",
	"Machine.AddBreakpoint1":  "debug aid",
	"amhelp.MachDebug":        "needs a debugger server (network)",
	"amhelp.MachDebugWs":      "needs a debugger server (network)",
	"amhelp.MachDebugEnv":     "needs a debugger server (network)",
	"amhelp.EnableDebugging":  "sets process environment",
	"amhelp.SetEnvLogLevel":   "sets process environment",
	"amhelp.SemConfigEnv":     "reads process environment",
	"amhelp.Pool":             "third-party worker pool",
	"amhelp.NewStateLoop":     "needs dedicated loop states",
	"amhelp.Interval":         "ticker driven, covered by Wait",
	"amhelp.NewMirror":        "needs a handlers struct matching the state list",
	"amhelp.Healthcheck":      "needs the Healthcheck state",
	"amhelp.GroupWhen1":       "needs several machines",
	"amhelp.NewMutRequest":    "retry loop, covered through NewReq*",
	"am.NewCommon":            "constructor, used by C19",
	"am.New":                  "constructor",
	"am.TestMockClock":        "test-only setter",
	"am.NewArgsMapper":        "logging helper",
	"am.OptsWithDebug":        "mutates options from env",
	"am.OptsWithTracers":      "constructor option",
	"am.NewLastTxTracer":      "constructor",
	"am.NewStates":            "generic",
	"am.NewStateGroups":       "generic",
}

type callRes struct {
	Case    string `json:"case"`
	Panic   string `json:"panic,omitempty"`
	Blocked bool   `json:"blocked,omitempty"`
}

// combos enumerates argument tuples (capped).
// maxCombos is the number of argument tuples tried per function and phase.
func maxCombos() int {
	if kit.Thorough() {
		return 96
	}
	return 24
}

func combos(cands [][]reflect.Value, cap int) [][]reflect.Value {
	out := [][]reflect.Value{{}}
	for _, c := range cands {
		var next [][]reflect.Value
		for _, p := range out {
			for _, v := range c {
				next = append(next, append(slices.Clone(p), v))
				if len(next) >= cap*4 {
					break
				}
			}
		}
		out = next
	}
	if len(out) > cap {
		// spread evenly
		step := len(out) / cap
		var o2 [][]reflect.Value
		for i := 0; i < len(out) && len(o2) < cap; i += step {
			o2 = append(o2, out[i])
		}
		out = o2
	}
	return out
}

func describe(args []reflect.Value) string {
	var s []string
	for _, a := range args {
		x := fmt.Sprintf("%v", a)
		if a.Kind() == reflect.Func {
			x = "func"
		}
		if a.Kind() == reflect.Ptr && !a.IsNil() {
			x = "&" + a.Type().Elem().Name()
		}
		if a.Kind() == reflect.Interface && !a.IsNil() {
			x = fmt.Sprintf("<%s>", a.Elem().Type())
		}
		if len(x) > 40 {
			x = x[:40]
		}
		s = append(s, x)
	}
	return "(" + strings.Join(s, ", ") + ")"
}

// oneCall runs fn(args) in its own bubble with a fresh machine in the phase.
func oneCall(t *testing.T, name, phase string, getFn func(e *envT) reflect.Value, comboIdx int) (res callRes, ok bool) {
	res.Case = fmt.Sprintf("%s#%d@%s", name, comboIdx, phase)
	defer func() {
		if p := recover(); p != nil {
			// bubble ended with blocked goroutines (after a Blocked verdict) - fine
			ok = true
		}
	}()
	synctest.Test(t, func(t *testing.T) {
		e := newEnv(phase)
		done := make(chan string, 1)
		// prepare builds the argument tuple; returns false when there is nothing to call
		var fn reflect.Value
		var in []reflect.Value
		prepare := func() bool {
			fn = getFn(e)
			ft := fn.Type()
			var cands [][]reflect.Value
			for i := 0; i < ft.NumIn(); i++ {
				pt := ft.In(i)
				if ft.IsVariadic() && i == ft.NumIn()-1 {
					// variadic: none, or one element
					el := grid(pt.Elem(), e, name)
					opts := []reflect.Value{{}}
					if len(el) > 0 {
						opts = append(opts, el[0])
						if len(el) > 1 {
							opts = append(opts, el[1])
						}
					}
					cands = append(cands, opts)
					continue
				}
				g := grid(pt, e, name)
				if g == nil {
					res.Case = "UNSUPPORTED:" + pt.String()
					return false
				}
				cands = append(cands, g)
			}
			all := combos(cands, maxCombos())
			if comboIdx >= len(all) {
				res.Case = "END"
				return false
			}
			for _, a := range all[comboIdx] {
				if a.IsValid() {
					in = append(in, a)
				}
			}
			res.Case = fmt.Sprintf("%s%s@%s", name, describe(in), phase)
			return true
		}
		call := func() {
			defer func() {
				if p := recover(); p != nil {
					done <- fmt.Sprint(p)
					return
				}
				done <- ""
			}()
			fn.Call(in)
		}
		if phase == "inhandler" {
			// make the call from inside a final handler of a running transition,
			// with that handler's own (valid) event available as an argument
			ready := make(chan bool, 1)
			e.m.HandlersBindMaps(nil, map[string]am.HandlerFinal{"BState": func(ev *am.Event) {
				e.live = ev
				ok := prepare()
				ready <- ok
				if ok {
					call()
				}
			}})
			go e.m.Add1("B", nil)
			if !<-ready {
				e.done()
				return
			}
		} else {
			if !prepare() {
				e.done()
				return
			}
			go call()
		}
		select {
		case p := <-done:
			res.Panic = p
			e.done()
		case <-time.After(time.Hour):
			res.Blocked = true
		}
	})
	return res, true
}

// ----------------------------------------------------- (C) behavioural helpers

func behavioural(t *testing.T, rep *kit.Report) {
	bad := func(sig, format string, a ...any) {
		rep.Violate("c20:helpers:"+sig, fmt.Sprintf(format, a...), map[string]any{"part": "helpers", "sig": sig})
	}
	run := func(name string, f func()) {
		rep.Add("evaluations", 1)
		rep.Add("transitions", 1)
		func() {
			defer func() {
				if p := recover(); p != nil {
					if strings.Contains(fmt.Sprint(p), "deadlock") {
						bad(name+":blocked", "%s blocked forever", name)
					} else {
						bad(name+":panic", "%s panicked: %v", name, p)
					}
				}
			}()
			synctest.Test(t, func(t *testing.T) { f() })
		}()
	}
	sc := am.Schema{"A": {}, "B": {}, "V": {}, "R": {Require: am.S{"Z"}}, "Z": {}}
	mk := func() (*am.Machine, chan struct{}) {
		m := am.New(context.Background(), sc, &am.Opts{Id: "h"})
		block := make(chan struct{})
		m.HandlersBindMaps(map[string]am.HandlerNegotiation{
			"VEnter": func(e *am.Event) bool { return false }, // veto
		}, map[string]am.HandlerFinal{
			"BState": func(e *am.Event) { <-block },
		})
		return m, block
	}
	fin := func(m *am.Machine) {
		m.Dispose()
		<-m.WhenDisposed()
		time.Sleep(30 * time.Second)
	}
	ctx := context.Background()
	run("AddSync-executed", func() {
		m, _ := mk()
		if ok := amhelp.Add1Sync(ctx, m, "A", nil); !ok || !m.Is1("A") {
			bad("AddSync", "Add1Sync(A) = %v with A active=%v", ok, m.Is1("A"))
		}
		fin(m)
	})
	run("AddSync-vetoed", func() {
		m, _ := mk()
		if ok := amhelp.Add1Sync(ctx, m, "V", nil); ok || m.Is1("V") {
			bad("AddSync", "Add1Sync(V) (vetoed) = %v with V active=%v", ok, m.Is1("V"))
		}
		fin(m)
	})
	run("AddSync-queued-then-executed", func() {
		m, block := mk()
		go m.Add1("B", nil) // blocks in BState
		time.Sleep(time.Millisecond)
		res := make(chan bool, 1)
		go func() { res <- amhelp.Add1Sync(ctx, m, "A", nil) }()
		time.Sleep(time.Millisecond)
		close(block)
		select {
		case ok := <-res:
			if !ok || !m.Is1("A") {
				bad("AddSync", "queued Add1Sync(A) = %v with A active=%v", ok, m.Is1("A"))
			}
		case <-time.After(time.Minute):
			bad("AddSync:blocked", "queued Add1Sync(A) did not return although A became active=%v", m.Is1("A"))
		}
		fin(m)
	})
	run("AddSync-queued-then-canceled", func() {
		m, block := mk()
		go m.Add1("B", nil)
		time.Sleep(time.Millisecond)
		res := make(chan bool, 1)
		go func() { res <- amhelp.Add1Sync(ctx, m, "R", nil) }() // rejected by relations
		time.Sleep(time.Millisecond)
		close(block)
		select {
		case ok := <-res:
			if ok || m.Is1("R") {
				bad("AddSync", "queued Add1Sync(R) (rejected) = %v", ok)
			}
		case <-time.After(time.Minute):
			bad("AddSync:blocked", "queued Add1Sync(R) (rejected) did not return")
		}
		fin(m)
	})
	run("RemoveSync", func() {
		m, _ := mk()
		m.Add1("A", nil)
		if ok := amhelp.Remove1Sync(ctx, m, "A", nil); !ok || m.Is1("A") {
			bad("RemoveSync", "Remove1Sync(A) = %v with A active=%v", ok, m.Is1("A"))
		}
		fin(m)
	})
	run("RemoveSync-queued", func() {
		m, block := mk()
		m.Add1("A", nil)
		go m.Add1("B", nil)
		time.Sleep(time.Millisecond)
		res := make(chan bool, 1)
		go func() { res <- amhelp.Remove1Sync(ctx, m, "A", nil) }()
		time.Sleep(time.Millisecond)
		close(block)
		select {
		case ok := <-res:
			if !ok || m.Is1("A") {
				bad("RemoveSync", "queued Remove1Sync(A) = %v with A active=%v", ok, m.Is1("A"))
			}
		case <-time.After(time.Minute):
			bad("RemoveSync:blocked", "queued Remove1Sync(A) did not return, A active=%v", m.Is1("A"))
		}
		fin(m)
	})
	run("Cant/Ask", func() {
		m, _ := mk()
		if amhelp.CantAdd1(m, "A", nil) {
			bad("CantAdd", "CantAdd1(A) = true although Add1(A) executes")
		}
		if !amhelp.CantAdd1(m, "R", nil) {
			bad("CantAdd", "CantAdd1(R) = false although Add1(R) is rejected")
		}
		if !amhelp.CantAdd1(m, "V", nil) {
			bad("CantAdd", "CantAdd1(V) = false although VEnter vetoes")
		}
		m.Add1("A", nil)
		if amhelp.CantRemove1(m, "A", nil) {
			bad("CantRemove", "CantRemove1(A) = true although Remove1(A) executes")
		}
		if r := amhelp.AskAdd1(m, "R", nil); r != am.Canceled || m.Is1("R") {
			bad("AskAdd", "AskAdd1(R) = %v with R active=%v", r, m.Is1("R"))
		}
		if r := amhelp.AskAdd1(m, "Z", nil); r != am.Executed || !m.Is1("Z") {
			bad("AskAdd", "AskAdd1(Z) = %v with Z active=%v", r, m.Is1("Z"))
		}
		if r := amhelp.AskRemove1(m, "A", nil); r != am.Executed || m.Is1("A") {
			bad("AskRemove", "AskRemove1(A) = %v with A active=%v", r, m.Is1("A"))
		}
		fin(m)
	})
	run("CantAdd-disposed", func() {
		m, _ := mk()
		m.Dispose()
		<-m.WhenDisposed()
		res := make(chan bool, 1)
		go func() { res <- amhelp.CantAdd1(m, "A", nil) }()
		select {
		case c := <-res:
			if !c {
				bad("CantAdd", "CantAdd1 on a disposed machine = false")
			}
		case <-time.After(time.Minute):
			bad("CantAdd:blocked", "CantAdd1 on a disposed machine did not return")
		}
		time.Sleep(30 * time.Second)
	})
	run("WaitForAll/Any", func() {
		m, _ := mk()
		go func() { time.Sleep(time.Second); m.Add1("A", nil) }()
		if err := amhelp.WaitForAll(ctx, 10*time.Second, m.When1("A", nil)); err != nil {
			bad("WaitForAll", "WaitForAll returned %v although A became active", err)
		}
		if err := amhelp.WaitForAll(ctx, time.Second, m.When1("Z", nil)); err == nil {
			bad("WaitForAll", "WaitForAll returned nil although Z never became active")
		}
		if err := amhelp.WaitForAny(ctx, time.Second, m.When1("Z", nil), m.When1("A", nil)); err != nil {
			bad("WaitForAny", "WaitForAny returned %v although A is active", err)
		}
		if err := amhelp.WaitForAny(ctx, time.Second, m.When1("Z", nil)); err == nil {
			bad("WaitForAny", "WaitForAny returned nil although nothing fired")
		}
		fin(m)
	})
	run("WaitForErr", func() {
		m, _ := mk()
		go func() { time.Sleep(time.Second); m.AddErr(errors.New("x"), nil) }()
		if err := amhelp.WaitForErrAll(ctx, 10*time.Second, m, m.When1("Z", nil)); err == nil {
			bad("WaitForErrAll", "WaitForErrAll returned nil although the machine errored")
		}
		m2, _ := mk()
		go func() { time.Sleep(time.Second); m2.Add1("A", nil) }()
		if err := amhelp.WaitForErrAny(ctx, 10*time.Second, m2, m2.When1("A", nil)); err != nil {
			bad("WaitForErrAny", "WaitForErrAny returned %v although A fired and there was no error", err)
		}
		m3, _ := mk()
		go func() { time.Sleep(time.Second); m3.AddErr(errors.New("x"), nil) }()
		if err := amhelp.WaitForErrAny(ctx, 10*time.Second, m3, m3.When1("Z", nil)); err == nil {
			bad("WaitForErrAny", "WaitForErrAny returned nil although the machine errored and nothing fired")
		}
		fin(m)
		fin(m2)
		fin(m3)
	})
}

// ------------------------------------------------------------------ (D) copies

func copies(rep *kit.Report) {
	bad := func(sig, format string, a ...any) {
		rep.Violate("c20:copies:"+sig, fmt.Sprintf(format, a...), map[string]any{"part": "copies", "sig": sig})
	}
	sc := am.Schema{"A": {Add: am.S{"B"}, Tags: []string{"t:1", "u:2"}}, "B": {}, "C": {Remove: am.S{"A"}, After: am.S{"B"}}}
	m := am.New(context.Background(), sc, &am.Opts{Id: "c", Tags: []string{"x", "y"}, Tracers: []am.Tracer{kit.NewRecTracer("r")}})
	m.VerifyStates(am.S{"A", "B", "C", am.StateException})
	m.Add1("A", nil)
	snap := func() string {
		return fmt.Sprintf("%v|%v|%v|%v|%v|%d|%v", m.ActiveStates(nil), m.Schema(), m.Clock(nil), m.Time(nil), m.Tags(), len(m.Tracers()), m.StringAll())
	}
	before := snap()
	rep.Add("evaluations", 7)
	as := m.ActiveStates(nil)
	if len(as) > 0 {
		as[0] = "ZZ"
	}
	s := m.Schema()
	st := s["A"]
	if len(st.Add) > 0 {
		st.Add[0] = "ZZ"
	}
	if len(st.Tags) > 0 {
		st.Tags[0] = "zz"
	}
	s["Q"] = am.State{}
	delete(s, "B")
	c := m.Clock(nil)
	c["A"] = 99
	tm := m.Time(nil)
	tm[0] = 99
	tg := m.Tags()
	if len(tg) > 0 {
		tg[0] = "zz"
	}
	q := m.Queue()
	_ = append(q, nil)
	tr := m.Tracers()
	if len(tr) > 0 {
		tr[0] = nil
	}
	if after := snap(); after != before {
		bad("getter-aliases-machine", "modifying values returned by getters changed the machine:\n before %s\n after  %s", before, after)
	}
	if _, sch, err := m.Export(); err == nil {
		x := sch["A"]
		if len(x.Tags) > 0 {
			x.Tags[0] = "zz"
		}
		if after := snap(); after != before {
			bad("export-aliases-machine", "modifying the schema returned by Export changed the machine")
		}
	}
	if sc["A"].Tags[0] != "t:1" || sc["A"].Add[0] != "B" {
		bad("aliases-input-schema", "the schema literal passed to New was modified: %v", sc["A"])
	}
}

// --------------------------------------------------------------------- driver

func TestCheck(t *testing.T) {
	if os.Getenv("AMC_C20_CHILD") != "" {
		child(t)
		return
	}
	rep := kit.NewReport("C20")
	rep.KeepViolations(600)
	defer rep.Write()
	if kit.ReplayPath() != "" {
		var r map[string]any
		_ = kit.LoadReplay(&r)
		fmt.Printf("replay %v\n", r)
		switch r["part"] {
		case "algebra":
			algebra(rep)
		case "helpers":
			behavioural(t, rep)
		case "copies":
			copies(rep)
		default:
			if c, ok := r["case"].(string); ok {
				os.Setenv("AMC_C20_ONLY", c)
			}
			supervise(t, rep)
		}
		rep.Add("states", 1)
		return
	}
	algebra(rep)
	behavioural(t, rep)
	copies(rep)
	supervise(t, rep)
	rep.Note("generic_functions_not_called", genericFuncs)
	var sk []string
	for k, v := range skip {
		sk = append(sk, k+": "+v)
	}
	sort.Strings(sk)
	rep.Note("skipped", sk)
	rep.Sample(3, map[string]any{"totality_case": "Machine.WhenTime([A B], [0 0 0 0 0], <cancelled ctx>)@errored", "phases": phases})
}

type target struct {
	name string
	get  func(e *envT) reflect.Value
}

func targets() []target {
	var out []target
	mt := reflect.TypeOf((*am.Machine)(nil))
	for i := 0; i < mt.NumMethod(); i++ {
		name := mt.Method(i).Name
		idx := i
		out = append(out, target{"Machine." + name, func(e *envT) reflect.Value { return reflect.ValueOf(e.m).Method(idx) }})
	}
	alias := map[string]string{"pkg/machine": "am", "pkg/helpers": "amhelp", "pkg/integrations": "amint"}
	for _, f := range funcRegistry {
		f := f
		out = append(out, target{alias[f.Pkg] + "." + f.Name, func(e *envT) reflect.Value { return f.Fn }})
	}
	return out
}

// child runs the totality cases, logging a write-ahead line per case.
func child(t *testing.T) {
	logp := os.Getenv("AMC_C20_LOG")
	lf, err := os.OpenFile(logp, os.O_APPEND|os.O_CREATE|os.O_WRONLY, 0o644)
	if err != nil {
		t.Fatal(err)
	}
	defer lf.Close()
	emit := func(kind string, v any) {
		b, _ := json.Marshal(map[string]any{"k": kind, "v": v})
		lf.Write(append(b, '\n'))
		lf.Sync()
	}
	done := map[string]bool{}
	if b, err := os.ReadFile(os.Getenv("AMC_C20_DONE")); err == nil {
		for _, l := range strings.Split(string(b), "\n") {
			if l != "" {
				done[l] = true
			}
		}
	}
	only := os.Getenv("AMC_C20_ONLY")
	onlyID := os.Getenv("AMC_C20_ONLYID")
	wdLimit := 6 * time.Second
	if onlyID != "" {
		wdLimit = 20 * time.Second // confirmation run of a single case
	}
	shard, nshard := kit.Shard()
	for ti, tg := range targets() {
		if ti%nshard != shard {
			continue
		}
		if why, ok := skip[tg.name]; ok {
			_ = why
			continue
		}
		if only != "" && !strings.HasPrefix(only, tg.name) {
			continue
		}
		for _, ph := range phases {
			if ph == "inhandler" && waits(tg.name) {
				continue // waiting for the machine from inside its own handler cannot progress (documented for Eval)
			}
			for ci := 0; ci < maxCombos(); ci++ {
				id := fmt.Sprintf("%s#%d@%s", tg.name, ci, ph)
				if done[id] {
					continue
				}
				if onlyID != "" && id != onlyID {
					continue
				}
				emit("S", id)
				// real-time watchdog: a block on a real (non-bubble) lock never
				// lets fake time advance
				wd := time.AfterFunc(wdLimit, func() {
					fmt.Println("WATCHDOG: case blocked in real time:", id)
					pprof.Lookup("goroutine").WriteTo(os.Stdout, 2)
					os.Exit(3)
				})
				res, _ := oneCall(t, tg.name, ph, tg.get, ci)
				wd.Stop()
				emit("E", id)
				if res.Case == "END" {
					break
				}
				if strings.HasPrefix(res.Case, "UNSUPPORTED:") {
					emit("U", tg.name+" "+res.Case)
					break
				}
				emit("C", res)
			}
		}
	}
	emit("DONE", "")
}

// supervise runs the child process until it finishes, attributing crashes.
func supervise(t *testing.T, rep *kit.Report) {
	work := os.Getenv("AMC_WORK")
	if work == "" {
		work = os.TempDir()
	}
	shard, _ := kit.Shard()
	logp := fmt.Sprintf("%s/c20-wal-%d.jsonl", work, shard)
	donep := fmt.Sprintf("%s/c20-done-%d.txt", work, shard)
	os.Remove(logp)
	os.Remove(donep)
	unsupported := map[string]bool{}
	var irreproducible []string
	for attempt := 0; attempt < 40; attempt++ {
		cmd := exec.Command(os.Args[0], "-test.run", "^TestCheck$", "-test.timeout", "0")
		cmd.Env = append(os.Environ(), "AMC_C20_CHILD=1", "AMC_C20_LOG="+logp, "AMC_C20_DONE="+donep, "AMC_OUT=")
		out, err := cmd.CombinedOutput()
		// read the log
		f, e2 := os.Open(logp)
		if e2 != nil {
			rep.HarnessError("child wrote no log: %v / %v\n%s", err, e2, tail(string(out), 2000))
			return
		}
		var started, finished []string
		open := ""
		complete := false
		sc := bufio.NewScanner(f)
		sc.Buffer(make([]byte, 1<<20), 1<<20)
		var results []callRes
		for sc.Scan() {
			var rec struct {
				K string          `json:"k"`
				V json.RawMessage `json:"v"`
			}
			if json.Unmarshal(sc.Bytes(), &rec) != nil {
				continue
			}
			switch rec.K {
			case "S":
				json.Unmarshal(rec.V, &open)
				started = append(started, open)
			case "E":
				var id string
				json.Unmarshal(rec.V, &id)
				finished = append(finished, id)
				open = ""
			case "C":
				var r callRes
				json.Unmarshal(rec.V, &r)
				results = append(results, r)
			case "U":
				var u string
				json.Unmarshal(rec.V, &u)
				unsupported[u] = true
			case "DONE":
				complete = true
			}
		}
		f.Close()
		for _, r := range results {
			rep.Add("evaluations", 1)
			rep.Add("transitions", 1)
			fn := r.Case
			if i := strings.Index(fn, "("); i > 0 {
				fn = fn[:i]
			}
			ph := r.Case[strings.LastIndex(r.Case, "@")+1:]
			rep.Distinct("functions_called", fn)
			if r.Panic != "" {
				rep.Violate("c20:panic:"+fn+"@"+ph, fmt.Sprintf("%s panicked: %s", r.Case, r.Panic), map[string]any{"part": "totality", "case": fn})
			}
			if r.Blocked && !(waits(fn) && !strings.Contains(fn, "Cant") && !strings.Contains(fn, "Ask")) {
				rep.Violate("c20:blocked:"+fn+"@"+ph, fmt.Sprintf("%s blocked forever (nothing runnable for an hour of fake time)", r.Case), map[string]any{"part": "totality", "case": fn})
			}
		}
		if complete {
			break
		}
		// crashed: attribute to the open case and continue after it
		if open == "" {
			rep.HarnessError("child died outside a case: %v\n%s", err, tail(string(out), 2000))
			return
		}
		fn := open[:strings.Index(open, "#")]
		ph := open[strings.LastIndex(open, "@")+1:]
		why := "process killed"
		if strings.Contains(string(out), "WATCHDOG: case blocked in real time") {
			why = "blocked forever on a lock (no progress for 6s of real time)"
		}
		if strings.Contains(string(out), "stack overflow") || strings.Contains(string(out), "goroutine stack exceeds") {
			why = "fatal error: stack overflow (unbounded recursion)"
		} else if strings.Contains(string(out), "fatal error:") {
			i := strings.Index(string(out), "fatal error:")
			why = strings.SplitN(string(out)[i:], "\n", 2)[0]
		}
		kind := "fatal"
		if strings.HasPrefix(why, "blocked") {
			kind = "blocked"
		}
		confirmed := true
		if kind == "blocked" {
			// the 6 s real-time watchdog is a wall-clock verdict: believe it only
			// if the same case, alone in a fresh process with a 20 s watchdog,
			// blocks again (a real-lock deadlock of a sequential call does so
			// every time); otherwise count it
			confirmed = false
			for i := 0; i < 3 && !confirmed; i++ {
				cl := fmt.Sprintf("%s/c20-confirm-%d.jsonl", work, shard)
				os.Remove(cl)
				cc := exec.Command(os.Args[0], "-test.run", "^TestCheck$", "-test.timeout", "0")
				cc.Env = append(os.Environ(), "AMC_C20_CHILD=1", "AMC_C20_LOG="+cl, "AMC_C20_DONE="+cl+".none",
					"AMC_C20_ONLY="+fn, "AMC_C20_ONLYID="+open, "AMC_OUT=")
				o2, _ := cc.CombinedOutput()
				os.Remove(cl)
				if strings.Contains(string(o2), "WATCHDOG: case blocked in real time") {
					confirmed = true
					out = o2
				}
			}
			if !confirmed {
				rep.Add("irreproducible", 1)
				irreproducible = append(irreproducible, open)
			} else if i := strings.Index(string(out), "WATCHDOG:"); i >= 0 {
				why += "\n" + tail(string(out)[i:], 6000)
			}
		}
		if confirmed {
			rep.Violate("c20:"+kind+":"+fn+"@"+ph, fmt.Sprintf("%s: %s", open, why), map[string]any{"part": "totality", "case": fn})
		}
		df, _ := os.OpenFile(donep, os.O_APPEND|os.O_CREATE|os.O_WRONLY, 0o644)
		for _, id := range finished {
			df.WriteString(id + "\n")
		}
		df.WriteString(open + "\n")
		df.Close()
		os.Remove(logp)
	}
	var us []string
	for u := range unsupported {
		us = append(us, u)
	}
	sort.Strings(us)
	rep.Note("unsupported_parameter_types", us)
	rep.Note("watchdog_hits_not_reproduced", irreproducible)
	rep.Add("states", 1)
}

func tail(s string, n int) string {
	if len(s) > n {
		return s[len(s)-n:]
	}
	return s
}
