// C12 - the machine API is safe for concurrent use.
//
// RACE: bounded-exhaustive enumeration of small concurrent programs on the
// real machine in a -race build. A program is an (ordered) pair of public API
// operations run by two goroutines with no synchronisation between them,
// against a machine whose transitions (with handlers and an Auto state) are
// being run by a third goroutine; every pair of the alphabet is executed in
// several machine contexts. The oracle is the Go race detector, a
// happens-before analysis: it reports two conflicting accesses of the executed
// program that are unordered, whatever the timing of this particular run was,
// so one execution of a pair covers its schedules up to control flow.
// Reports are read from the race log after every program and attributed to it.
package c12

import (
	"context"
	"fmt"
	"os"
	"path/filepath"
	"regexp"
	"runtime"
	"slices"
	"sort"
	"strings"
	"sync"
	"testing"
	"time"

	"amc/kit"

	am "github.com/pancsta/asyncmachine-go/pkg/machine"
	arpc "github.com/pancsta/asyncmachine-go/pkg/rpc"
)

var schema = am.Schema{
	"A": {},
	"B": {Multi: true},
	"C": {Require: am.S{"A"}},
	"D": {Auto: true, Require: am.S{"A"}},
	"E": {Remove: am.S{"A"}},
}
var names = am.S{"A", "B", "C", "D", "E", am.StateException}

type handlers struct{}

func (h *handlers) AState(e *am.Event)      {}
func (h *handlers) BEnter(e *am.Event) bool { return true }
func (h *handlers) CState(e *am.Event)      { e.Machine().Add1("B", nil) }

type panicking struct{}

func (h *panicking) CState(e *am.Event) { panic("boom") }

type tracer struct{ *am.TracerNoOp }

type opT struct {
	name string
	fn   func(m *am.Machine, ctx context.Context)
}

func ops() []opT {
	var tr am.Tracer
	_ = tr
	return []opT{
		{"Add1(A)", func(m *am.Machine, _ context.Context) { m.Add1("A", nil) }},
		{"Add(B,C)", func(m *am.Machine, _ context.Context) { m.Add(am.S{"B", "C"}, am.A{"x": 1}) }},
		{"Remove1(A)", func(m *am.Machine, _ context.Context) { m.Remove1("A", nil) }},
		{"Set(E)", func(m *am.Machine, _ context.Context) { m.Set(am.S{"E"}, nil) }},
		{"Toggle1(A)", func(m *am.Machine, _ context.Context) { m.Toggle1("A", nil) }},
		{"AddErr", func(m *am.Machine, _ context.Context) { m.AddErr(fmt.Errorf("e"), nil) }},
		{"CanAdd1(C)", func(m *am.Machine, _ context.Context) { m.CanAdd1("C", nil) }},
		{"CanRemove1(A)", func(m *am.Machine, _ context.Context) { m.CanRemove1("A", nil) }},
		{"Is1", func(m *am.Machine, _ context.Context) { m.Is1("A") }},
		{"Any1", func(m *am.Machine, _ context.Context) { m.Any1("A", "B") }},
		{"Not1", func(m *am.Machine, _ context.Context) { m.Not1("C") }},
		{"Tick", func(m *am.Machine, _ context.Context) { m.Tick("B") }},
		{"Time", func(m *am.Machine, _ context.Context) { m.Time(nil) }},
		{"Clock", func(m *am.Machine, _ context.Context) { m.Clock(am.S{"A", "B"}) }},
		{"ActiveStates", func(m *am.Machine, _ context.Context) { m.ActiveStates(nil) }},
		{"StateNames", func(m *am.Machine, _ context.Context) { m.StateNames() }},
		{"Schema", func(m *am.Machine, _ context.Context) { m.Schema() }},
		{"Has1", func(m *am.Machine, _ context.Context) { m.Has1("A") }},
		{"Index1", func(m *am.Machine, _ context.Context) { m.Index1("C") }},
		{"When1", func(m *am.Machine, ctx context.Context) { m.When1("B", ctx) }},
		{"WhenNot1", func(m *am.Machine, ctx context.Context) { m.WhenNot1("A", ctx) }},
		{"WhenTime1", func(m *am.Machine, ctx context.Context) { m.WhenTime1("B", 3, ctx) }},
		{"WhenTicks", func(m *am.Machine, ctx context.Context) { m.WhenTicks("B", 2, ctx) }},
		{"WhenQueue", func(m *am.Machine, _ context.Context) { m.WhenQueue(am.Result(5)) }},
		{"WhenArgs", func(m *am.Machine, ctx context.Context) { m.WhenArgs("B", am.A{"x": 1}, ctx) }},
		{"NewStateCtx", func(m *am.Machine, _ context.Context) { m.NewStateCtx("A") }},
		{"HandlersBind", func(m *am.Machine, _ context.Context) { m.HandlersBind(&handlers{}) }},
		{"BindTracer", func(m *am.Machine, _ context.Context) { m.BindTracer(&tracer{&am.TracerNoOp{}}) }},
		{"Tracers", func(m *am.Machine, _ context.Context) { m.Tracers() }},
		{"SemLogger.SetLevel", func(m *am.Machine, _ context.Context) { m.SemLogger().SetLevel(am.LogChanges) }},
		{"SemLogger.SetSimple", func(m *am.Machine, _ context.Context) {
			m.SemLogger().SetSimple(func(string, ...any) {}, am.LogOps)
		}},
		{"SemLogger.EnableId", func(m *am.Machine, _ context.Context) { m.SemLogger().EnableId(true) }},
		{"Log", func(m *am.Machine, _ context.Context) { m.Log("hello %d", 1) }},
		{"Export", func(m *am.Machine, _ context.Context) { m.Export() }},
		{"String", func(m *am.Machine, _ context.Context) { _ = m.String() }},
		{"StringAll", func(m *am.Machine, _ context.Context) { _ = m.StringAll() }},
		{"Inspect", func(m *am.Machine, _ context.Context) { _ = m.Inspect(nil) }},
		{"QueueLen", func(m *am.Machine, _ context.Context) { m.QueueLen() }},
		{"IsQueued", func(m *am.Machine, _ context.Context) {
			m.IsQueued(am.MutationAdd, am.S{"A"}, false, false, 0, false, am.PositionAny)
		}},
		{"WillBe1", func(m *am.Machine, _ context.Context) { m.WillBe1("A") }},
		{"Eval", func(m *am.Machine, ctx context.Context) { m.Eval("ev", func() {}, ctx) }},
		{"Err", func(m *am.Machine, _ context.Context) { _ = m.Err(); m.IsErr() }},
		{"MachineTick", func(m *am.Machine, _ context.Context) { m.MachineTick(); m.QueueTick() }},
		{"Transition", func(m *am.Machine, _ context.Context) { _ = m.Transition() }},
		{"OnChange", func(m *am.Machine, _ context.Context) { m.OnChange(func(*am.Machine, am.Time, am.Time) {}) }},
		{"Groups", func(m *am.Machine, _ context.Context) { m.Groups() }},
		{"Id/Tags", func(m *am.Machine, _ context.Context) { m.Id(); m.Tags(); m.ParentId() }},
		{"IsDisposed", func(m *am.Machine, _ context.Context) { m.IsDisposed() }},
		{"ParseStates", func(m *am.Machine, _ context.Context) { m.ParseStates(am.S{"A", "X"}) }},
		{"SetSchema", func(m *am.Machine, _ context.Context) {
			sc := m.Schema()
			sc["F"] = am.State{}
			m.SetSchema(sc, append(slices.Clone(m.StateNames()), "F"))
		}},
		{"Dispose", func(m *am.Machine, _ context.Context) { m.Dispose() }},
	}
}

// contexts: what the third goroutine does meanwhile.
// cold: the schema has just been replaced (sequentially), lazily built copies
// are not there yet.
// panicking: like toggling, with a final handler that panics (the machine
// recovers and rolls the transition back).
var contexts = []string{"idle", "toggling", "erroring", "cold", "panicking"}

type progT struct {
	Ctx  string `json:"ctx"`
	A, B string
	C    string `json:",omitempty"` // third operation (thorough tier)
}

var raceLog string

func logSize() int64 {
	ms, _ := filepath.Glob(raceLog + ".*")
	var n int64
	for _, f := range ms {
		if st, err := os.Stat(f); err == nil {
			n += st.Size()
		}
	}
	return n
}

func logText() string {
	ms, _ := filepath.Glob(raceLog + ".*")
	sort.Strings(ms)
	var sb strings.Builder
	for _, f := range ms {
		b, _ := os.ReadFile(f)
		sb.Write(b)
	}
	return sb.String()
}

func runProgram(p progT, byName map[string]opT) {
	ctx, cancel := context.WithCancel(context.Background())
	defer cancel()
	m := am.New(ctx, schema, &am.Opts{Id: "m"})
	if err := m.VerifyStates(names); err != nil {
		panic(err)
	}
	m.SemLogger().SetSimple(func(string, ...any) {}, am.LogNothing)
	m.HandlersBind(&handlers{})
	if p.Ctx == "panicking" {
		m.HandlersBind(&panicking{})
	}
	m.Add1("A", nil)
	if p.Ctx == "cold" {
		byName["SetSchema"].fn(m, ctx)
	}
	stop := make(chan struct{})
	var wg sync.WaitGroup
	if p.Ctx == "toggling" || p.Ctx == "erroring" || p.Ctx == "panicking" {
		wg.Add(1)
		go func() {
			defer wg.Done()
			// bounded: an endless producer would keep whichever caller
			// happens to process the queue busy for ever
			for i := 0; i < 40; i++ {
				select {
				case <-stop:
					return
				default:
				}
				runtime.Gosched()
				if p.Ctx == "toggling" || p.Ctx == "panicking" {
					m.Add(am.S{"A", "C"}, nil)
					m.Remove(am.S{"A", am.StateException}, nil)
				} else {
					m.AddErr(fmt.Errorf("x"), nil)
					m.Remove1(am.StateException, nil)
				}
			}
		}()
	}
	var g sync.WaitGroup
	start := make(chan struct{})
	opsOf := []string{p.A, p.B}
	if p.C != "" {
		opsOf = append(opsOf, p.C)
	}
	for _, o := range opsOf {
		op := byName[o]
		g.Add(1)
		go func() {
			defer g.Done()
			defer func() { _ = recover() }()
			<-start
			for i := 0; i < 3; i++ {
				op.fn(m, ctx)
			}
		}()
	}
	close(start)
	g.Wait()
	close(stop)
	wg.Wait()
	m.Dispose()
	select {
	case <-m.WhenDisposed():
	case <-time.After(2 * time.Second):
	}
}

// ---- network machine: clock updates vs readers ----

type nopConn struct{}

func (nopConn) Call(ctx context.Context, method arpc.ServerMethod, args any, resp any) bool {
	return false
}
func (nopConn) Notify(ctx context.Context, method arpc.ServerMethod, args any) bool { return false }

type nmOpT struct {
	name string
	fn   func(m *arpc.NetworkMachine, ctx context.Context)
}

func nmOps() []nmOpT {
	return []nmOpT{
		{"nm.Is1", func(m *arpc.NetworkMachine, _ context.Context) { m.Is1("A") }},
		{"nm.Any1", func(m *arpc.NetworkMachine, _ context.Context) { m.Any1("A", "B") }},
		{"nm.Tick", func(m *arpc.NetworkMachine, _ context.Context) { m.Tick("B") }},
		{"nm.Time", func(m *arpc.NetworkMachine, _ context.Context) { m.Time(nil) }},
		{"nm.Clock", func(m *arpc.NetworkMachine, _ context.Context) { m.Clock(nil) }},
		{"nm.ActiveStates", func(m *arpc.NetworkMachine, _ context.Context) { m.ActiveStates(nil) }},
		{"nm.StateNames", func(m *arpc.NetworkMachine, _ context.Context) { m.StateNames() }},
		{"nm.When1", func(m *arpc.NetworkMachine, ctx context.Context) { m.When1("B", ctx) }},
		{"nm.WhenNot1", func(m *arpc.NetworkMachine, ctx context.Context) { m.WhenNot1("A", ctx) }},
		{"nm.WhenTime1", func(m *arpc.NetworkMachine, ctx context.Context) { m.WhenTime1("B", 9, ctx) }},
		{"nm.NewStateCtx", func(m *arpc.NetworkMachine, _ context.Context) { m.NewStateCtx("A") }},
		{"nm.String", func(m *arpc.NetworkMachine, _ context.Context) { _ = m.String() }},
		{"nm.StringAll", func(m *arpc.NetworkMachine, _ context.Context) { _ = m.StringAll() }},
		{"nm.Inspect", func(m *arpc.NetworkMachine, _ context.Context) { _ = m.Inspect(nil) }},
		{"nm.Export", func(m *arpc.NetworkMachine, _ context.Context) { m.Export() }},
		{"nm.QueueTick", func(m *arpc.NetworkMachine, _ context.Context) { m.QueueTick(); m.MachineTick() }},
		{"nm.BindTracer", func(m *arpc.NetworkMachine, _ context.Context) { m.BindTracer(&tracer{&am.TracerNoOp{}}) }},
		{"nm.Schema", func(m *arpc.NetworkMachine, _ context.Context) { m.Schema() }},
		{"nm.Has1", func(m *arpc.NetworkMachine, _ context.Context) { m.Has1("C") }},
		{"nm.Index1", func(m *arpc.NetworkMachine, _ context.Context) { m.Index1("C") }},
	}
}

func runNetMach(a, b nmOpT) {
	ctx, cancel := context.WithCancel(context.Background())
	defer cancel()
	sc := am.SchemaMerge(schema, am.Schema{am.StateException: {Multi: true}})
	parent := am.New(ctx, am.Schema{"P": {}}, &am.Opts{Id: "parent"})
	defer parent.Dispose()
	nm, in, err := arpc.NewNetworkMachine(ctx, "nm", nopConn{}, sc, names, parent, nil, false)
	if err != nil {
		panic(err)
	}
	var g sync.WaitGroup
	start := make(chan struct{})
	g.Add(1)
	go func() {
		defer g.Done()
		<-start
		t := make(am.Time, len(names))
		for i := 0; i < 12; i++ {
			t[i%len(t)]++
			in.Lock()
			in.UpdateClock(slices.Clone(t), uint64(i+1), 0)
		}
	}()
	for _, op := range []nmOpT{a, b} {
		g.Add(1)
		go func() {
			defer g.Done()
			defer func() { _ = recover() }()
			<-start
			for i := 0; i < 4; i++ {
				op.fn(nm, ctx)
			}
		}()
	}
	close(start)
	g.Wait()
	nm.Dispose()
}

var (
	reFrame = regexp.MustCompile(`(?m)^  (\S+)\(.*\)\n\s+(\S+):(\d+)`)
)

// sigOfReport: the first repository frame of each of the two access stacks.
func sigOfReport(rep string) (sig string, detail string) {
	parts := regexp.MustCompile(`(?m)^(Write|Read|Previous write|Previous read|Atomic write|Previous atomic write|Atomic read|Previous atomic read) at .* by .*:$`).FindAllStringIndex(rep, -1)
	var accs []string
	for i, loc := range parts {
		end := len(rep)
		if i+1 < len(parts) {
			end = parts[i+1][0]
		}
		if j := strings.Index(rep[loc[1]:end], "\n\n"); j >= 0 {
			end = loc[1] + j
		}
		kind := "R"
		if strings.Contains(strings.ToLower(rep[loc[0]:loc[1]]), "write") {
			kind = "W"
		}
		fn := "?"
		for _, fm := range reFrame.FindAllStringSubmatch(rep[loc[1]:end], -1) {
			if strings.Contains(fm[1], "asyncmachine-go/pkg/") {
				fn = fm[1][strings.LastIndex(fm[1], "/")+1:]
				break
			}
		}
		accs = append(accs, kind+":"+fn)
	}
	sort.Strings(accs)
	return strings.Join(accs, "~"), rep
}

func TestCheck(t *testing.T) {
	rep := kit.NewReport("C12")
	defer rep.Write()
	for _, kv := range strings.Fields(os.Getenv("GORACE")) {
		if v, ok := strings.CutPrefix(kv, "log_path="); ok {
			raceLog = v
		}
	}
	if raceLog == "" {
		rep.HarnessError("GORACE log_path not set (the check must run from the driver, in a -race build)")
		return
	}
	all := ops()
	byName := map[string]opT{}
	for _, o := range all {
		byName[o.name] = o
	}
	var progs []progT
	if kit.ReplayPath() != "" {
		var p progT
		if err := kit.LoadReplay(&p); err != nil {
			t.Fatal(err)
		}
		// a replay repeats its program (reports depend on what the run executes)
		for i := 0; i < 25; i++ {
			progs = append(progs, p)
		}
	} else {
		for _, c := range contexts {
			for i, a := range all {
				for _, b := range all[i:] {
					progs = append(progs, progT{Ctx: c, A: a.name, B: b.name})
				}
			}
		}
	}
	// thorough: also every unordered triple of 14 core operations (three
	// goroutines, one operation each) in every context
	if kit.Thorough() && kit.ReplayPath() == "" {
		core := []string{"Add1(A)", "Remove1(A)", "Set(E)", "AddErr", "CanAdd1(C)", "Is1", "Time", "StateNames", "When1", "NewStateCtx", "HandlersBind", "BindTracer", "Export", "Eval"}
		for _, c := range contexts {
			for i := range core {
				for j := i; j < len(core); j++ {
					for k := j; k < len(core); k++ {
						progs = append(progs, progT{Ctx: c, A: core[i], B: core[j], C: core[k]})
					}
				}
			}
		}
	}
	nms := nmOps()
	nmByName := map[string]nmOpT{}
	for _, o := range nms {
		nmByName[o.name] = o
	}
	if kit.ReplayPath() == "" {
		for i, a := range nms {
			for _, b := range nms[i:] {
				progs = append(progs, progT{Ctx: "netmach", A: a.name, B: b.name})
			}
		}
	}
	shard, nshard := kit.Shard()
	seen := map[string]bool{}
	for pi, p := range progs {
		if pi%nshard != shard {
			continue
		}
		if rep.OverBudget() {
			rep.NotExhaustive("budget")
			break
		}
		before := logSize()
		done := make(chan struct{})
		go func() {
			defer close(done)
			if p.Ctx == "netmach" {
				runNetMach(nmByName[p.A], nmByName[p.B])
				return
			}
			runProgram(p, byName)
		}()
		select {
		case <-done:
		case <-time.After(20 * time.Second):
			// not a race verdict: a program that does not finish is counted
			// and left behind (blocking calls are C13's and C20's subject)
			rep.Add("programs_not_finished", 1)
			rep.Distinct("not_finished", fmt.Sprintf("%s || %s (%s)", p.A, p.B, p.Ctx))
			if os.Getenv("C12_TRACE") != "" {
				fmt.Fprintln(os.Stderr, "NOT FINISHED", p)
				if os.Getenv("C12_TRACE") == "dump" {
					buf := make([]byte, 1<<20)
					os.Stderr.Write(buf[:runtime.Stack(buf, true)])
				}
			}
		}
		rep.Add("evaluations", 1)
		rep.Add("transitions", 1)
		if p.Ctx != "idle" {
			rep.Add("nontrivial", 1)
		}
		if logSize() == before {
			continue
		}
		txt := logText()
		for _, r := range strings.Split(txt[min(int(before), len(txt)):], "==================") {
			if !strings.Contains(r, "DATA RACE") {
				continue
			}
			sig, detail := sigOfReport(r)
			if p.A == "SetSchema" || p.B == "SetSchema" {
				sig = "setschema:" + sig
			} else if p.A == "Dispose" || p.B == "Dispose" {
				sig = "dispose:" + sig
			}
			rep.Distinct("race_sites", sig)
			if seen[sig] {
				continue
			}
			seen[sig] = true
			rep.Violate("c12:race:"+sig, fmt.Sprintf("data race while running %s || %s (%s machine): %s\n%s", p.A, p.B, p.Ctx, sig, detail[:min(len(detail), 1500)]), p)
		}
	}
	rep.Add("states", int64(len(all)))
	rep.Note("grid", fmt.Sprintf("%d operations -> %d unordered pairs x %d contexts", len(all), len(all)*(len(all)+1)/2, len(contexts)))
}
