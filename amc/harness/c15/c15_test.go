// C15 - supervision keeps the pool within bounds.
package c15

import (
	"context"
	"fmt"
	"os"
	"runtime"
	"slices"
	"strconv"
	"strings"
	"sync"
	"testing"
	"testing/synctest"
	"time"

	"amc/kit"

	am "github.com/pancsta/asyncmachine-go/pkg/machine"
	"github.com/pancsta/asyncmachine-go/pkg/node"
	ssnode "github.com/pancsta/asyncmachine-go/pkg/node/states"
	"github.com/pancsta/asyncmachine-go/pkg/x/vnet"
	"github.com/pancsta/asyncmachine-go/pkg/x/vsched"
	cache "github.com/patrickmn/go-cache"
)

var (
	ssS = ssnode.SupervisorStates
	ssW = ssnode.WorkerStates
)

type poolT struct {
	Min, Max, Warm int
}

type world struct {
	ctx     context.Context
	sup     *node.Supervisor
	mu      sync.Mutex
	workers map[string]*node.Worker // by any of its addresses
	order   []*node.Worker          // in fork order
	forks   int
	kills   []string
	failFor int // the next n forks fail
	bad     []string
	samples int
	// needKill: workers seen with more remembered errors than WorkerErrKill
	needKill  map[string]bool
	maxSeen   int
	readySeen bool
}

func (w *world) violate(format string, a ...any) {
	w.mu.Lock()
	defer w.mu.Unlock()
	if len(w.bad) < 20 {
		w.bad = append(w.bad, fmt.Sprintf(format, a...))
	}
}

func (w *world) testFork(addr string) error {
	w.mu.Lock()
	w.forks++
	fail := w.failFor > 0
	if fail {
		w.failFor--
	}
	w.mu.Unlock()
	if fail {
		return fmt.Errorf("fork failed (injected)")
	}
	worker, err := node.NewWorker(w.ctx, "k", ssnode.WorkerSchema, ssW.Names(), nil)
	if err != nil {
		return err
	}
	worker.Mach.BindTracer(&groupTracer{TracerNoOp: &am.TracerNoOp{}, w: w, id: "verif-work-" + worker.Mach.Id()})
	worker.Start(addr)
	t := time.NewTimer(10 * time.Second)
	defer t.Stop()
	select {
	case <-worker.Mach.When1(ssW.RpcReady, nil):
	case <-t.C:
		return fmt.Errorf("worker RpcReady timeout: %s", worker.Mach.String())
	}
	w.mu.Lock()
	defer w.mu.Unlock()
	w.workers[worker.LocalAddr] = worker
	w.workers[worker.PublicAddr] = worker
	w.workers[worker.BootAddr] = worker
	w.order = append(w.order, worker)
	return nil
}

func (w *world) testKill(addr string) error {
	w.mu.Lock()
	w.kills = append(w.kills, addr)
	worker := w.workers[addr]
	w.mu.Unlock()
	if worker == nil {
		return fmt.Errorf("kill: worker %s not found", addr)
	}
	worker.Stop(true)
	// what the real kill path does once the process is gone
	w.sup.Mach.Add1(ssS.WorkerKilled, node.Pass(&node.A{LocalAddr: addr}))
	return nil
}

// groupTracer: a worker's work-status group has at most one member active.
type groupTracer struct {
	*am.TracerNoOp
	w  *world
	id string
}

func (t *groupTracer) TracerId() string { return t.id }

func (t *groupTracer) TransitionEnd(tx *am.Transition) {
	n := 0
	for _, s := range ssnode.WorkerGroups.WorkStatus {
		if i := tx.Machine.Index1(s); i >= 0 && i < len(tx.TimeAfter) && tx.TimeAfter[i]%2 == 1 {
			n++
		}
	}
	if n > 1 {
		t.w.violate("group: %d members of the worker's WorkStatus group active after %s", n, tx.String())
	}
}

// poolTracer samples the pool at every transition end of the supervisor.
type poolTracer struct {
	*am.TracerNoOp
	w *world
}

func (t *poolTracer) TracerId() string { return "verif-pool" }

func (t *poolTracer) TransitionEnd(tx *am.Transition) {
	w := t.w
	if tx.Machine.IsDisposed() || tx.Machine.Index1(ssS.PoolReady) < 0 {
		return
	}
	tracked, ready := node.VerifPool(w.sup)
	w.samples++
	if tracked > w.maxSeen {
		w.maxSeen = tracked
	}
	if tracked > w.sup.Max {
		w.violate("over-max: %d workers tracked with Max=%d after %s", tracked, w.sup.Max, tx.String())
	}
	idx := func(s string) int { return tx.Machine.Index1(s) }
	on := func(t am.Time, s string) bool { return t[idx(s)]%2 == 1 }
	called := tx.CalledStates()
	if tx.IsAccepted.Load() && len(called) == 1 && called[0] == ssS.ForkingWorker && tx.Mutation.Type == am.MutationAdd && tracked >= w.sup.Max {
		w.violate("fork-at-max: a fork was started with %d workers tracked, Max=%d", tracked, w.sup.Max)
	}
	was, is := on(tx.TimeBefore, ssS.PoolReady), on(tx.TimeAfter, ssS.PoolReady)
	min := node.VerifMin(w.sup)
	if is {
		w.readySeen = true
	}
	if !was && is && ready < min {
		w.violate("ready-short: PoolReady activated with %d ready workers, min %d (%s)", ready, min, tx.String())
	}
	if was && !is && ready >= min && on(tx.TimeAfter, ssS.Start) {
		w.violate("ready-withdrawn: PoolReady withdrawn with %d ready workers, min %d (%s)", ready, min, tx.String())
	}
	for _, g := range [][]string{ssnode.SupervisorGroups.PoolStatus, ssnode.SupervisorGroups.PoolNormalized} {
		n := 0
		for _, s := range g {
			if on(tx.TimeAfter, s) {
				n++
			}
		}
		if n > 1 {
			w.violate("group: %d members of %v active after %s", n, g, tx.String())
		}
	}
	for _, a := range node.VerifWorkerAddrs(w.sup) {
		if node.VerifWorkerErrs(w.sup, a) > w.sup.WorkerErrKill {
			w.mu.Lock()
			w.needKill[a] = true
			w.mu.Unlock()
		}
	}
}

func (w *world) worker(i string) *node.Worker {
	n, _ := strconv.Atoi(i)
	w.mu.Lock()
	defer w.mu.Unlock()
	if n < len(w.order) {
		return w.order[n]
	}
	return nil
}

func (w *world) apply(ev string) {
	op, arg, _ := strings.Cut(ev, ":")
	switch op {
	case "t":
		d, _ := time.ParseDuration(arg)
		time.Sleep(d)
	case "cut":
		if x := w.worker(arg); x != nil {
			for _, a := range []string{x.LocalAddr, x.PublicAddr} {
				for _, l := range vnet.LinksTo(a) {
					l.Cut()
				}
			}
		}
	case "err":
		if x := w.worker(arg); x != nil {
			node.AddErrWorker(nil, w.sup.Mach, fmt.Errorf("injected"), node.Pass(&node.A{LocalAddr: x.LocalAddr}))
		}
	case "die":
		if x := w.worker(arg); x != nil {
			x.Stop(true)
		}
	case "unready":
		if x := w.worker(arg); x != nil {
			x.Mach.Remove1(ssW.Ready, nil)
		}
	case "ready":
		if x := w.worker(arg); x != nil {
			x.Mach.Add1(ssW.Ready, nil)
		}
	case "work":
		if x := w.worker(arg); x != nil {
			x.Mach.Add1(ssW.WorkRequested, nil)
			x.Mach.Add1(ssW.Working, nil)
			x.Mach.Add1(ssW.WorkReady, nil)
		}
	case "failforks":
		n, _ := strconv.Atoi(arg)
		w.mu.Lock()
		w.failFor = n
		w.mu.Unlock()
	case "pool":
		var a, b, c int
		fmt.Sscanf(arg, "%d,%d,%d", &a, &b, &c)
		w.sup.SetPool(a, b, c, 0)
	case "check":
		w.sup.CheckPool()
	case "hb":
		w.sup.Mach.Add1(ssS.Heartbeat, nil)
	}
}

func runCase(p poolT, hist []string, verbose bool) (bad []string, obs string) {
	ctx, cancel := context.WithCancel(context.Background())
	defer cancel()
	vnet.Reset()
	cache.VerifStopJanitors.Store(false)
	// an (empty) delay plan turns waits for instrumented mutexes into durable
	// fake-time waits: doDispose sleeps while holding the machine's locks, and
	// a goroutine parked on a real mutex would stop the bubble's clock
	vsched.NewDelayPlan(nil)
	defer vsched.DelayOff()
	w := &world{ctx: ctx, workers: map[string]*node.Worker{}, needKill: map[string]bool{}}
	sup, err := node.NewSupervisor(ctx, "k", []string{"bin"}, ssnode.WorkerSchema, nil)
	if err != nil {
		return []string{"setup: " + err.Error()}, ""
	}
	w.sup = sup
	sup.TestFork, sup.TestKill = w.testFork, w.testKill
	sup.Mach.BindTracer(&poolTracer{TracerNoOp: &am.TracerNoOp{}, w: w})
	sup.Min, sup.Max, sup.Warm = p.Min, p.Max, p.Warm
	sup.WorkerErrKill = 1
	sup.Start("localhost:0")
	time.Sleep(20 * time.Second)
	synctest.Wait()
	var o []string
	o = append(o, "start="+sup.Mach.String())
	for _, ev := range hist {
		w.apply(ev)
		synctest.Wait()
	}
	// settle
	time.Sleep(90 * time.Second)
	synctest.Wait()
	if verbose {
		fmt.Println("  supervisor:", sup.Mach.String(), "forks", w.forks, "kills", w.kills, "samples", w.samples, "max tracked", w.maxSeen)
	}
	w.mu.Lock()
	for a := range w.needKill {
		if !slices.Contains(w.kills, a) {
			w.bad = append(w.bad, fmt.Sprintf("no-kill: worker %s had more than WorkerErrKill=%d errors but no kill was requested", a, sup.WorkerErrKill))
		}
	}
	bad = slices.Clone(w.bad)
	w.mu.Unlock()
	o = append(o, fmt.Sprintf("end=%s forks=%d kills=%d maxTracked=%d", sup.Mach.String(), w.forks, len(w.kills), w.maxSeen))
	// tear down
	sup.Stop()
	w.mu.Lock()
	ws := slices.Clone(w.order)
	w.mu.Unlock()
	for _, x := range ws {
		x.Stop(true)
	}
	cancel()
	cache.VerifStopJanitors.Store(true)
	time.Sleep(time.Minute)
	vnet.CloseAll()
	time.Sleep(5 * time.Minute)
	return bad, strings.Join(o, " | ")
}

// bubble: see harness/c09 (real-time watchdog; goroutines left blocked after
// the tear-down are counted, not judged).
func bubble(t *testing.T, rep *kit.Report, what any, f func()) {
	done := make(chan struct{})
	go func() {
		select {
		case <-done:
		case <-time.After(60 * time.Second):
			rep.HarnessError("bubble stuck for 60s (real time) in %v", what)
			rep.Write()
			buf := make([]byte, 1<<20)
			os.Stderr.Write(buf[:runtime.Stack(buf, true)])
			os.Exit(2)
		}
	}()
	defer close(done)
	defer func() {
		if p := recover(); p != nil {
			if strings.Contains(fmt.Sprint(p), "blocked goroutines remain") {
				rep.Add("leaked_goroutines_runs", 1)
				return
			}
			panic(p)
		}
	}()
	synctest.Test(t, func(t *testing.T) { f() })
}

type caseT struct {
	Pool poolT    `json:"pool"`
	Hist []string `json:"hist"`
}

var alphabet = []string{
	"t:2s", "t:61s", "cut:0", "cut:1", "err:0", "err:1", "die:0", "unready:0", "ready:0", "work:0", "failforks:2", "check", "hb",
}

func pools() []poolT {
	ps := []poolT{{1, 1, 0}, {1, 2, 0}, {2, 2, 1}, {2, 3, 1}, {0, 2, 2}, {3, 2, 1}}
	if kit.Thorough() {
		ps = append(ps, poolT{2, 4, 2}, poolT{1, 3, 3}, poolT{0, 1, 0}, poolT{4, 6, 1})
	}
	return ps
}

func sigOf(b string) string { return b[:strings.Index(b, ":")] }

func TestCheck(t *testing.T) {
	cache.VerifNoFinalizer.Store(true)
	rep := kit.NewReport("C15")
	defer rep.Write()
	if kit.ReplayPath() != "" {
		var c caseT
		if err := kit.LoadReplay(&c); err != nil {
			t.Fatal(err)
		}
		var bad []string
		var obs string
		bubble(t, rep, c, func() { bad, obs = runCase(c.Pool, c.Hist, true) })
		fmt.Println("replay", c, obs)
		for _, b := range bad {
			fmt.Println("  violation:", b)
			rep.Violate(fmt.Sprintf("c15:%s:min%d-max%d-warm%d", sigOf(b), c.Pool.Min, c.Pool.Max, c.Pool.Warm), b, c)
		}
		rep.Add("states", 1)
		rep.Add("transitions", int64(len(c.Hist)))
		return
	}
	if h, ok := os.LookupEnv("C15_HIST"); ok {
		p := poolT{2, 3, 1}
		if ps := os.Getenv("C15_POOL"); ps != "" {
			fmt.Sscanf(ps, "%d,%d,%d", &p.Min, &p.Max, &p.Warm)
		}
		var bad []string
		var obs string
		bubble(t, rep, h, func() { bad, obs = runCase(p, strings.Fields(h), true) })
		fmt.Println(obs)
		for _, b := range bad {
			fmt.Println("  BAD:", b)
		}
		return
	}
	depth := 3
	if kit.Thorough() {
		depth = 4
	}
	var hists [][]string
	var rec func(h []string)
	rec = func(h []string) {
		hists = append(hists, slices.Clone(h))
		if len(h) == depth {
			return
		}
		for _, e := range alphabet {
			rec(append(h, e))
		}
	}
	rec(nil)
	shard, nshard := kit.Shard()
	ps := pools()
	// quick: every history of depth <= 3; thorough: depth <= 4
	n := 0
	for _, p := range ps {
		for _, h := range hists {
			n++
			if n%nshard != shard {
				continue
			}
			if rep.OverBudget() {
				rep.NotExhaustive("budget")
				return
			}
			c := caseT{p, h}
			var bad []string
			var obs string
			bubble(t, rep, c, func() { bad, obs = runCase(p, h, false) })
			rep.Add("evaluations", 1)
			rep.Add("transitions", int64(len(h)))
			rep.Distinct("outcomes", obs[strings.LastIndex(obs, "end="):])
			if strings.Contains(obs, "kills=1") || strings.Contains(obs, "kills=2") {
				rep.Add("nontrivial", 1)
			}
			if len(bad) > 0 {
				var bad2 []string
				bubble(t, rep, c, func() { bad2, _ = runCase(p, h, false) })
				sigs := func(l []string) []string {
					var out []string
					for _, b := range l {
						if x := sigOf(b); !slices.Contains(out, x) {
							out = append(out, x)
						}
					}
					slices.Sort(out)
					return out
				}
				if !slices.Equal(sigs(bad), sigs(bad2)) {
					rep.Add("irreproducible", 1)
					rep.Note("irreproducible_example", fmt.Sprintf("%v: %v vs %v", c, bad, bad2))
					continue
				}
			}
			seen := map[string]bool{}
			for _, b := range bad {
				sig := fmt.Sprintf("c15:%s:min%d-max%d-warm%d", sigOf(b), p.Min, p.Max, p.Warm)
				if seen[sig] {
					continue
				}
				seen[sig] = true
				rep.Violate(sig, fmt.Sprintf("%s :: pool=%+v hist=%v", b, p, h), c)
			}
		}
	}
	rep.Add("states", int64(len(hists)))
	rep.Note("grid", fmt.Sprintf("%d histories (depth <= %d over %d events) x %d pools", len(hists), depth, len(alphabet), len(ps)))
	rep.Sample(2, caseT{ps[3], hists[len(hists)/2]})
}
