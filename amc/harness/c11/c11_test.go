// C11 - same schema and same mutation history give the same machine, every
// run.
//
// ENV engine: pkg/machine is built with every `range` over a map and every
// maps.Keys/Values turned into an environment choice (vsched.MapOrder). For
// each case (schema, history, logging handlers) every placement of <= d
// non-default map orders is executed; all executions must yield the identical
// observation (results, machine time after every step, active states in order,
// handler call sequence).
package c11

import (
	"context"
	"fmt"
	"os"
	"slices"
	"strings"
	"testing"
	"testing/synctest"
	"time"

	"amc/explore"
	"amc/kit"

	am "github.com/pancsta/asyncmachine-go/pkg/machine"
	"github.com/pancsta/asyncmachine-go/pkg/x/vsched"
)

type caseT struct {
	Name     string     `json:"name"`
	Spec     kit.Spec   `json:"spec"`
	Schema   string     `json:"schema"`
	Hist     []kit.Step `json:"hist"`
	Handlers bool       `json:"handlers"`
	// Literal: build the schema map by inserting states in reversed order
	// (a schema literal written in a different order).
	Reversed bool `json:"reversed"`
}

type replayT struct {
	Case    caseT `json:"case"`
	Choices []int `json:"choices"`
	Labels  []string
}

// runOnce executes the case under the map-order choices and returns the
// observation. Runs inside a bubble.
func runOnce(c caseT, prefix []int) *explore.Exec {
	ex := &explore.Exec{}
	s := vsched.NewEnv(prefix)
	defer vsched.Detach()
	var obs []string
	func() {
		defer func() {
			if p := recover(); p != nil {
				obs = append(obs, fmt.Sprintf("PANIC:%v", p))
			}
		}()
		sc := am.Schema{}
		names := c.Spec.StateNames()
		order := slices.Clone(names)
		if c.Reversed {
			slices.Reverse(order)
		}
		full := c.Spec.Schema()
		for _, n := range order {
			sc[n] = full[n]
		}
		m := am.New(context.Background(), sc, &am.Opts{Id: "m"})
		if err := m.VerifyStates(append(slices.Clone(names), am.StateException)); err != nil {
			panic(err)
		}
		var l *kit.HLog
		if c.Handlers {
			l = kit.NewHLog()
			l.Mach = m
			l.BindAll(m, names, "b0", "", nil)
		}
		for i, st := range c.Hist {
			res, p := kit.SafeApply(st, m)
			if p != "" {
				obs = append(obs, "PANIC:"+p)
				break
			}
			r := fmt.Sprint(res)
			obs = append(obs, fmt.Sprintf("#%d %s=%s time=%v active=%v", i, st, r, m.Time(nil), m.ActiveStates(nil)))
		}
		// list-valued views that are derived, not stored
		rev := slices.Clone(names)
		slices.Reverse(rev)
		obs = append(obs, fmt.Sprintf("parse=%v", m.ParseStates(append(rev, "Unknown"))))
		obs = append(obs, "inspect="+m.Inspect(nil))
		if l != nil {
			var seq []string
			for _, cl := range l.Calls {
				seq = append(seq, cl.Name)
			}
			obs = append(obs, "handlers="+strings.Join(seq, ","))
			m.Dispose()
			<-m.WhenDisposed()
			time.Sleep(10 * time.Second)
		}
	}()
	for _, d := range s.Trace {
		ex.Trace = append(ex.Trace, explore.Decision{N: d.N, Free: d.Free, Chosen: d.Chosen, Env: d.Env, Label: d.Label})
	}
	if s.Diverged != "" {
		ex.Err = s.Diverged
	}
	ex.Obs = strings.Join(obs, " | ")
	return ex
}

func cases() []caseT {
	var out []caseT
	add := func(name string, sp kit.Spec, hist []kit.Step) {
		for _, h := range []bool{false, true} {
			out = append(out, caseT{Name: name, Spec: sp, Schema: sp.String(), Hist: hist, Handlers: h})
		}
		out = append(out, caseT{Name: name + "/reversed-literal", Spec: sp, Schema: sp.String(), Hist: hist, Handlers: true, Reversed: true})
	}
	S := func(op string, st ...string) kit.Step { return kit.Step{Op: op, Called: st} }
	// several Auto states
	sp := kit.Spec{{Auto: true}, {Auto: true}, {Auto: true}, {}}
	add("autos3", sp, []kit.Step{S("add", "D"), S("remove", "A", "B"), S("add", "D"), S("remove", "D")})
	// mutually removing Auto states
	sp = kit.Spec{{Auto: true, Remove: 0b110}, {Auto: true, Remove: 0b101}, {Auto: true, Remove: 0b011}, {}}
	add("autos-mutually-removing", sp, []kit.Step{S("add", "D"), S("remove", "A", "B", "C"), S("add", "D")})
	// Add fan two levels deep
	sp = kit.Spec{{Add: 0b1110}, {Add: 0b010000}, {Add: 0b100000}, {Add: 0b1000000}, {}, {}, {}}
	add("addfan2", sp, []kit.Step{S("add", "A"), S("remove", "E", "F", "G"), S("set", "B"), S("add", "A")})
	// independent Require chains
	sp = kit.Spec{{Require: 0b10}, {}, {Require: 0b1000}, {}, {Require: 0b100000}, {}}
	add("reqchains", sp, []kit.Step{S("add", "B", "D", "F"), S("add", "A", "C", "E"), S("remove", "B", "D", "F"), S("add", "A", "C", "E", "B", "D", "F")})
	// duplicates in the called list, re-adding active states
	sp = kit.Spec{{}, {}, {}, {}, {Multi: true}}
	add("dups", sp, []kit.Step{S("add", "A"), S("add", "B", "C", "D"), S("add", "C", "C"), S("add", "E", "A"), S("remove", "A", "B", "C", "D")})
	// auto + require + add mix
	sp = kit.Spec{{Auto: true, Require: 0b1000}, {Auto: true, Add: 0b100}, {Remove: 0b1}, {}}
	add("mix", sp, []kit.Step{S("add", "D"), S("add", "C"), S("remove", "C"), S("set", "D")})
	// families
	for _, n := range []int{3, 4} {
		for _, f := range kit.Families(n) {
			sn := f.Spec.StateNames()
			hist := []kit.Step{S("add", sn[0]), S("add", sn...), S("remove", sn[len(sn)-1]), S("set", sn[1])}
			add("fam:"+f.Name, f.Spec, hist)
		}
	}
	return out
}

func TestCheck(t *testing.T) {
	os.Setenv("AMC_PROPERTY", "C11")
	rep := kit.NewReport("C11")
	defer rep.Write()
	if kit.ReplayPath() != "" {
		var r replayT
		if err := kit.LoadReplay(&r); err != nil {
			t.Fatal(err)
		}
		var def, alt *explore.Exec
		synctest.Test(t, func(t *testing.T) { def = runOnce(r.Case, nil) })
		synctest.Test(t, func(t *testing.T) { alt = runOnce(r.Case, r.Choices) })
		fmt.Printf("replay case=%s schema[%s] hist=%v\n  default: %s\n  choices %v: %s\n", r.Case.Name, r.Case.Schema, r.Case.Hist, def.Obs, r.Choices, alt.Obs)
		for _, d := range alt.Trace {
			if d.Chosen != 0 {
				fmt.Println("   deviation:", d.Label)
			}
		}
		if def.Obs != alt.Obs {
			rep.Violate("c11:order-dependent:"+firstSite(alt), "observations differ under a different map iteration order", r)
		}
		rep.Add("states", 1)
		rep.Add("transitions", 1)
		return
	}
	shard, nshard := kit.Shard()
	bound := 1
	if kit.Thorough() {
		bound = 2
	}
	cs := cases()
	rep.Note("cases", len(cs))
	rep.Note("bound", bound)
	for i, c := range cs {
		if i%nshard != shard {
			continue
		}
		if rep.OverBudget() {
			rep.NotExhaustive("budget")
			break
		}
		var defObs string
		have := false
		run := func(prefix []int) *explore.Exec {
			var e *explore.Exec
			synctest.Test(t, func(t *testing.T) { e = runOnce(c, prefix) })
			return e
		}
		st, herr := explore.Explore(run, explore.Options{Bound: bound, Visit: func(prefix []int, e *explore.Exec) {
			if !have {
				defObs, have = e.Obs, true
				return
			}
			if e.Obs != defObs {
				var ch []int
				for _, d := range e.Trace {
					ch = append(ch, d.Chosen)
				}
				for len(ch) > 0 && ch[len(ch)-1] == 0 {
					ch = ch[:len(ch)-1]
				}
				rep.Violate("c11:order-dependent:"+firstSite(e),
					fmt.Sprintf("case %s schema[%s] hist=%v: default order gives [%s] but choices %v give [%s]", c.Name, c.Schema, c.Hist, defObs, ch, e.Obs),
					replayT{Case: c, Choices: ch})
			}
		}})
		if herr != "" {
			rep.HarnessError("case %s: %s", c.Name, herr)
		}
		rep.Add("traces", st.Execs)
		rep.Add("evaluations", st.Execs)
		rep.Add("transitions", st.Decisions+st.Execs)
		rep.Add("states", int64(len(st.TraceHashes)))
		if st.Execs > 1 {
			rep.Add("nontrivial", st.Execs-1)
		}
		rep.Distinct("cases_with_choices", c.Name)
		if st.BoundDone < bound {
			rep.NotExhaustive("case " + c.Name + " bound not completed")
		}
	}
	rep.Sample(3, map[string]any{"case": cs[0].Name, "schema": cs[0].Schema, "history": cs[0].Hist, "choices": "every map range / maps.Keys in pkg/machine is an ordered choice; <= bound non-default orders per execution"})
}

// firstSite names the first deviating map-order site of an execution.
func firstSite(e *explore.Exec) string {
	for _, d := range e.Trace {
		if d.Chosen != 0 {
			l := d.Label
			if i := strings.Index(l, "="); i > 0 {
				l = l[:i]
			}
			return strings.TrimPrefix(l, "maporder:")
		}
	}
	return "?"
}
