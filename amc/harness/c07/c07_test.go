// C07 - auto states are retried after every change and judged one by one.
//
// Explicit-state search: schemas with Auto states x BFS over machine states x
// mutations (incl. a health-check state and no-op mutations) x assignments of
// vetoes to the Auto states' own negotiation handlers; the tracer sequence is
// checked against the auto rule.
package c07

import (
	"fmt"
	"slices"
	"strings"
	"testing"
	"testing/synctest"

	"amc/kit"

	am "github.com/pancsta/asyncmachine-go/pkg/machine"
)

type cfg struct {
	Veto   []string `json:"veto"`
	Health bool     `json:"health"`
}

type replayT struct {
	kit.SeqReplay
	Cfg cfg `json:"cfg"`
}

// expectedAuto: inactive Auto states that no active state Removes.
func expectedAuto(sc am.Schema, active am.S) am.S {
	var out am.S
	for s, st := range sc {
		if !st.Auto || kit.Has(active, s) {
			continue
		}
		blocked := false
		for _, z := range active {
			if kit.Has(sc[z].Remove, s) {
				blocked = true
			}
		}
		if !blocked {
			out = append(out, s)
		}
	}
	return kit.Sorted(out)
}

func requiresTrans(sc am.Schema, b, a string) bool {
	seen := map[string]bool{b: true}
	q := []string{b}
	for len(q) > 0 {
		x := q[0]
		q = q[1:]
		for _, r := range sc[x].Require {
			if r == a {
				return true
			}
			if !seen[r] {
				seen[r] = true
				q = append(q, r)
			}
		}
	}
	return false
}

// checkSeq checks the tracer sequence of one step. calls = handler calls.
func checkSeq(sc am.Schema, index am.S, txs []kit.TxRec, calls []kit.HCall) (bad []string, nontrivial bool) {
	f := func(format string, a ...any) { bad = append(bad, fmt.Sprintf(format, a...)) }
	byTx := map[string][]kit.HCall{}
	for _, c := range calls {
		byTx[c.TxId] = append(byTx[c.TxId], c)
	}
	for i, tx := range txs {
		changed := !slices.Equal(tx.Before, tx.After)
		isHealth := tx.Type == am.MutationAdd && len(tx.Called) == 1 && (tx.Called[0] == am.StateHealthcheck || tx.Called[0] == am.StateHeartbeat)
		var next *kit.TxRec
		if i+1 < len(txs) {
			next = &txs[i+1]
		}
		trigger := tx.Accepted && !tx.IsAuto && !tx.IsCheck && changed
		if tx.IsAuto && next != nil && next.IsAuto {
			f("chain: an auto mutation was followed by another auto mutation")
		}
		if (!changed || !tx.Accepted || tx.IsCheck) && next != nil && next.IsAuto && !tx.IsAuto {
			f("spurious: auto mutation after a transition that changed nothing (accepted=%v check=%v)", tx.Accepted, tx.IsCheck)
		}
		if trigger && !isHealth {
			act := kit.ActiveOf(index, tx.After)
			want := expectedAuto(sc, act)
			if len(want) > 0 {
				nontrivial = true
				if next == nil || !next.IsAuto {
					f("missing: after %s%v (active %v) the next transition must be auto%v, got %v", tx.Type, tx.Called, act, want, describe(next))
				} else if !kit.SameSet(next.Called, want) || len(next.Called) != len(want) {
					f("called: auto mutation called %v, want exactly %v (active %v)", next.Called, want, act)
				}
			} else if next != nil && next.IsAuto {
				f("spurious: auto mutation%v although no inactive Auto state is eligible (active %v)", next.Called, act)
			}
		}
		if tx.IsAuto {
			// judged one by one
			T := kit.ActiveOf(index, tx.After)
			B := kit.ActiveOf(index, tx.Before)
			vetoed := map[string]bool{}
			anyVeto := false
			for _, c := range byTx[tx.Id] {
				if c.Vetoed {
					hs := kit.HandlerState(c.Name)
					if c.Kind() == "anyenter" || c.Kind() == "exit" || !sc[hs].Auto || !kit.Has(tx.Called, hs) {
						// global veto, an exiting state's veto, or the veto of a
						// state that is not one of the called Auto states: the
						// general rule (C05) cancels the whole transition
						anyVeto = true
					} else {
						vetoed[kit.HandlerState(c.Name)] = true
					}
				}
			}
			if anyVeto {
				continue
			}
			cand := kit.Union(kit.Union(B, tx.Called), T)
			// closure over Add of candidates (implied states can remove too)
			for ch := true; ch; {
				ch = false
				for _, x := range cand {
					for _, a := range sc[x].Add {
						if !kit.Has(cand, a) {
							cand = append(cand, a)
							ch = true
						}
					}
				}
			}
			// an accepted Auto state must have had its own bound negotiation
			// handlers consulted: Enter and the state-state handler from every
			// previously active state
			called := map[string]bool{}
			for _, c := range byTx[tx.Id] {
				called[c.Name] = true
			}
			if len(byTx[tx.Id]) > 0 {
				for _, a := range tx.Called {
					if !kit.Has(T, a) || kit.Has(B, a) || vetoed[a] {
						continue // (a vetoed state may still be re-implied by an Add relation)
					}
					implied := false
					for _, y := range cand {
						if y != a && kit.Has(sc[y].Add, a) {
							implied = true // may have entered through the post-veto re-resolution's Add closure
						}
					}
					if implied {
						continue
					}
					if !called[a+"Enter"] {
						f("unconsulted: Auto state %s was activated without its Enter handler being called (calls %v)", a, kit.CallNames(byTx[tx.Id]))
					}
					for _, x := range B {
						if x != a && x != am.StateException && !called[x+a] {
							f("unconsulted: Auto state %s was activated without the state-state handler %s%s being called (calls %v)", a, x, a, kit.CallNames(byTx[tx.Id]))
						}
					}
				}
			}
			for _, a := range tx.Called {
				if kit.Has(T, a) {
					continue
				}
				excused := vetoed[a] || !kit.Subset(sc[a].Require, T)
				// generous reading of "relations reject it": a, or a state a
				// (transitively) Requires, is in the Remove relation of any
				// candidate (active before, called, Add-implied)
				reqs := am.S{a}
				for _, r := range index {
					if requiresTrans(sc, a, r) {
						reqs = append(reqs, r)
					}
				}
				for _, z := range cand {
					for _, r := range reqs {
						if z != r && kit.Has(sc[z].Remove, r) {
							excused = true
						}
					}
				}
				// a state implied by a's Add relation was vetoed / rejected: a's own chain
				for _, v := range kit.Sorted(keys(vetoed)) {
					if v != a && (requiresTrans(sc, a, v)) {
						excused = true
					}
				}
				if !excused {
					f("rejected: called Auto state %s is inactive after the auto mutation without relations or its own handlers rejecting it (called %v, vetoed %v, before %v, after %v)", a, tx.Called, kit.Sorted(keys(vetoed)), B, T)
				}
			}
		}
	}
	return
}

func keys(m map[string]bool) []string {
	var o []string
	for k := range m {
		o = append(o, k)
	}
	return o
}

func describe(t *kit.TxRec) string {
	if t == nil {
		return "none"
	}
	return fmt.Sprintf("%s%v auto=%v", t.Type, t.Called, t.IsAuto)
}

type world struct {
	rep *kit.Report
	d   *kit.Disposer
}

func setupWith(sp kit.Spec, d *kit.Disposer, logOut **kit.HLog) func(m *am.Machine) {
	return func(m *am.Machine) {
		l := kit.NewHLog()
		l.Mach = m
		l.BindAll(m, sp.StateNames(), "b0", "", nil)
		d.Track(m)
		*logOut = l
	}
}

func exploreOne(w *world, sp kit.Spec, maxStates, maxAll int) {
	rep := w.rep
	if sp.HasReqRemConflict() {
		rep.Add("schemas_skipped_parse_conflict", 1)
		return
	}
	hasAuto := false
	for _, s := range sp {
		if s.Auto {
			hasAuto = true
		}
	}
	if !hasAuto {
		return
	}
	muts := kit.Mutations(sp, []string{"add", "remove", "set"}, false)
	muts = append(muts, kit.Step{Op: "adderr"})
	var log *kit.HLog
	var sc am.Schema
	report := func(t *kit.Trans, c cfg, bad []string) {
		for _, b := range bad {
			rep.Violate("c07:"+b[:strings.Index(b, ":")], fmt.Sprintf("%s :: cfg=%+v %s", b, c, t), replayT{t.Replay(), c})
		}
	}
	st, tr, capped := kit.ExploreSpec(sp, muts, kit.ExploreOpts{Setup: setupWith(sp, w.d, &log), MaxStates: maxStates,
		BeforeMut: func(m *am.Machine) { log.Reset() }}, func(t *kit.Trans) {
		if t.Panic != "" {
			rep.Violate("c07:panic-escaped", t.Panic+" :: "+t.String(), replayT{t.Replay(), cfg{}})
			return
		}
		if sc == nil {
			sc = t.Mach.Schema()
		}
		rep.Add("evaluations", 1)
		bad, nt := checkSeq(sc, t.Index, t.Txs, log.Calls)
		if nt {
			rep.Add("nontrivial", 1)
		}
		report(t, cfg{}, bad)
		// veto assignments over the auto transition's own negotiation handlers
		var names []string
		for _, tx := range t.Txs {
			if !tx.IsAuto {
				continue
			}
			for _, c := range log.Calls {
				own := kit.IsNegotiation(c.Kind()) && c.Kind() != "exit" && c.Kind() != "anyenter" &&
					sc[kit.HandlerState(c.Name)].Auto && kit.Has(tx.Called, kit.HandlerState(c.Name))
				if c.TxId == tx.Id && own && !kit.Has(names, c.Name) {
					names = append(names, c.Name)
				}
			}
		}
		names = kit.Sorted(names)
		var subsets [][]string
		if len(names) <= maxAll {
			subsets = kit.Subsets(names)[1:]
		} else {
			for i := range names {
				subsets = append(subsets, []string{names[i]})
				for j := i + 1; j < len(names); j++ {
					subsets = append(subsets, []string{names[i], names[j]})
				}
			}
		}
		for _, V := range subsets {
			// veto by handler name, armed inside auto transitions only
			var l3 *kit.HLog
			t3 := kit.RunStep(sp, t.Path, t.Mut, func(m *am.Machine) {
				setupWith(sp, w.d, &l3)(m)
			}, func(m *am.Machine) {
				l3.Reset()
				l3.VetoAutoOnly = true
				for _, n := range V {
					l3.VetoNames[n] = true
				}
			})
			if t3.Panic != "" {
				rep.Violate("c07:panic-escaped", t3.Panic+" :: veto="+fmt.Sprint(V)+" "+t3.String(), replayT{t3.Replay(), cfg{Veto: V}})
				continue
			}
			rep.Add("evaluations", 1)
			rep.Add("veto_runs", 1)
			bad, _ := checkSeq(sc, t3.Index, t3.Txs, l3.Calls)
			report(t3, cfg{Veto: V}, bad)
		}
		if w.d.Len() > 300 {
			w.d.DisposeAll()
		}
	})
	rep.Add("states", int64(st))
	rep.Add("transitions", int64(tr))
	rep.Add("schemas", 1)
	if capped {
		rep.NotExhaustive("state cap for " + sp.String())
	}
	w.d.DisposeAll()
}

func TestCheck(t *testing.T) {
	rep := kit.NewReport("C07")
	defer rep.Write()
	if kit.ReplayPath() != "" {
		var r replayT
		if err := kit.LoadReplay(&r); err != nil {
			t.Fatal(err)
		}
		synctest.Test(t, func(t *testing.T) { replay(rep, r) })
		return
	}
	shard, nshard := kit.Shard()
	var jobs []kit.Spec
	n1 := (&kit.Space{N: 1, Auto: true, Multi: true, Rels: 3}).Build()
	n2 := (&kit.Space{N: 2, Auto: true, Multi: true, Rels: 3}).Build()
	n3 := (&kit.Space{N: 3, Auto: true, Multi: true, Rels: 3}).Build()
	for c := int64(0); c < n1.Size(); c++ {
		jobs = append(jobs, n1.Decode(c))
	}
	s2, s3 := int64(2), int64(8191)
	if kit.Thorough() {
		s2, s3 = 1, 251
	}
	for c := int64(0); c < n2.Size(); c += s2 {
		jobs = append(jobs, n2.Decode(c))
	}
	for c := int64(0); c < n3.Size(); c += s3 {
		jobs = append(jobs, n3.Decode(c))
	}
	for n := 3; n <= 4; n++ {
		for _, f := range kit.Families(n) {
			jobs = append(jobs, f.Spec)
		}
	}
	// all-auto 3-state schemas with <=1 target per relation
	a3 := (&kit.Space{N: 3, Rels: 3, MaxTargets: 1}).Build()
	sa := int64(11)
	if kit.Thorough() {
		sa = 1
	}
	for c := int64(0); c < a3.Size(); c += sa {
		sp := a3.Decode(c)
		for i := range sp {
			sp[i].Auto = true
		}
		jobs = append(jobs, sp)
	}
	rep.Note("spaces", fmt.Sprintf("n1 full; n2 stride %d; n3 stride %d; all-auto n3 <=1 target stride %d; families 3,4; jobs=%d (schemas without Auto states are skipped)", s2, s3, sa, len(jobs)))
	maxAll := 3
	if kit.Thorough() {
		maxAll = 5
	}
	kit.Par(len(jobs), func(i int) {
		if i%nshard != shard {
			return
		}
		if rep.OverBudget() {
			rep.NotExhaustive("budget")
			return
		}
		synctest.Test(t, func(t *testing.T) {
			exploreOne(&world{rep, &kit.Disposer{}}, jobs[i], 300, maxAll)
		})
	})
	rep.Sample(4, map[string]any{"schema": kit.Families(4)[len(kit.Families(4))-1].Spec.String(), "veto": "subsets of the auto transition's own negotiation handlers"})
	rep.Sample(4, map[string]any{"schema": jobs[len(jobs)-7].String()})
}

func replay(rep *kit.Report, r replayT) {
	rep.Add("states", 1)
	rep.Add("transitions", 1)
	d := &kit.Disposer{}
	var l *kit.HLog
	t := kit.RunStep(r.Spec, r.Path, r.Mut, setupWith(r.Spec, d, &l), func(m *am.Machine) {
		l.Reset()
		l.VetoAutoOnly = true
		for _, n := range r.Cfg.Veto {
			l.VetoNames[n] = true
		}
	})
	fmt.Printf("replay cfg=%+v %s\n", r.Cfg, t)
	if t.Panic != "" {
		rep.Violate("c07:panic-escaped", t.Panic, r)
		return
	}
	for _, tx := range t.Txs {
		var cs []string
		for _, c := range l.Calls {
			if c.TxId == tx.Id {
				n := c.Name
				if c.Vetoed {
					n += "!"
				}
				cs = append(cs, n)
			}
		}
		fmt.Printf("  tx auto=%v %s%v accepted=%v %v -> %v calls=%v\n", tx.IsAuto, tx.Type, tx.Called, tx.Accepted, kit.ActiveOf(t.Index, tx.Before), kit.ActiveOf(t.Index, tx.After), cs)
	}
	bad, _ := checkSeq(t.Mach.Schema(), t.Index, t.Txs, l.Calls)
	for _, b := range bad {
		fmt.Println("  violation:", b)
		rep.Violate("c07:"+b[:strings.Index(b, ":")], b, r)
	}
	d.DisposeAll()
}
