// C16 - the debugger shows each transition as it happened.
//
// SEQ in fake time: real source machines with the real telemetry tracer
// (pkg/telemetry/dbg) connected over the in-memory network to the real am-dbg
// server feeding a real, headless Debugger (tcell simulation screen), all in
// one testing/synctest bubble per execution. Mutation histories are
// enumerated; the debugger's records, derived data, lookups, cursor movement,
// filters and export/import are compared with an independent recording tracer
// and with linear scans.
package c16

import (
	"context"
	"fmt"
	"os"
	"path/filepath"
	"runtime"
	"slices"
	"sort"
	"strings"
	"sync/atomic"
	"testing"
	"testing/synctest"
	"time"

	"github.com/gdamore/tcell/v2"

	"amc/kit"

	am "github.com/pancsta/asyncmachine-go/pkg/machine"
	"github.com/pancsta/asyncmachine-go/pkg/telemetry/dbg"
	"github.com/pancsta/asyncmachine-go/pkg/x/vnet"
	"github.com/pancsta/asyncmachine-go/tools/debugger"
	"github.com/pancsta/asyncmachine-go/tools/debugger/server"
	ssdbg "github.com/pancsta/asyncmachine-go/tools/debugger/states"
	"github.com/pancsta/asyncmachine-go/tools/debugger/types"
)

var ss = ssdbg.DebuggerStates

const addr = "localhost:7000"

var schema = am.Schema{
	"A":    {},
	"B":    {Multi: true},
	"C":    {Require: am.S{"A"}},
	"D":    {Auto: true, Require: am.S{"A"}, Remove: am.S{"E"}},
	"E":    {Remove: am.S{"D"}},
	"ErrX": {Require: am.S{am.StateException}},
}
var names = am.S{"A", "B", "C", "D", "E", "ErrX", am.StateException}

type caseT struct {
	Hist    []string `json:"hist"`
	Clients int      `json:"clients"`
}

type srcT struct {
	m  *am.Machine
	tr *kit.RecTracer
}

type handlers struct{}

// a nested (queued) mutation
func (h *handlers) CState(e *am.Event) { e.Machine().Add1("B", nil) }

func sigOf(b string) string { return b[:strings.Index(b, ":")] }

func activeIdx(t am.Time) []int {
	var out []int
	for i, v := range t {
		if v%2 == 1 {
			out = append(out, i)
		}
	}
	return out
}

func runCase(c caseT, dir string, verbose bool) (bad []string, obs string) {
	f := func(format string, a ...any) {
		if len(bad) < 30 {
			bad = append(bad, fmt.Sprintf(format, a...))
		}
	}
	ctx, cancel := context.WithCancel(context.Background())
	defer cancel()
	vnet.Reset()
	screen := tcell.NewSimulationScreen("utf8")
	screen.SetSize(120, 50)
	_ = screen.Init()
	p := types.Params{Id: "d", Screen: screen, ListenAddr: addr, OutputDir: dir, SelectConnected: true, TailMode: true, FilterLogLevel: am.LogChanges, MaxMemMb: 1000, LogOpsTtl: time.Hour, CleanOnConnect: true, ViewTimelines: types.ParamsViewTimelinesTwo, StartupView: "tree-log"}
	d, err := debugger.New(ctx, p)
	if err != nil {
		return []string{"setup: " + err.Error()}, ""
	}
	d.ServerMux, d.ServerHttp, err = server.New(d.Mach, addr, p)
	if err != nil {
		return []string{"setup: " + err.Error()}, ""
	}
	if d.Mach.Add1(ss.Start, nil) == am.Canceled {
		return []string{"setup: debugger Start canceled"}, ""
	}
	time.Sleep(2 * time.Second)
	var srcs []*srcT
	for i := 0; i < max(c.Clients, 1); i++ {
		tr := kit.NewRecTracer("ref")
		m := am.New(ctx, schema, &am.Opts{Id: fmt.Sprintf("src%d", i), Tracers: []am.Tracer{tr}})
		tr.Mach = m
		if err := m.VerifyStates(names); err != nil {
			panic(err)
		}
		m.HandlersBind(&handlers{})
		if err := dbg.TransitionsToDbg(m, addr); err != nil {
			return []string{"setup: " + err.Error()}, ""
		}
		srcs = append(srcs, &srcT{m, tr})
	}
	time.Sleep(2 * time.Second)
	for _, s := range srcs {
		s.tr.Reset()
	}
	for i, ev := range c.Hist {
		s := srcs[i%len(srcs)]
		op, arg, _ := strings.Cut(ev, ":")
		st := am.S(strings.Split(arg, ","))
		switch op {
		case "add":
			s.m.Add(st, nil)
		case "remove":
			s.m.Remove(st, nil)
		case "set":
			s.m.Set(st, nil)
		case "adderr":
			s.m.AddErrState("ErrX", fmt.Errorf("boom"), nil)
		}
		// an early lookup by id, before the (debounced) delivery of the
		// record: "not there yet" must not stick
		if cl := d.Clients[s.m.Id()]; cl != nil && len(s.tr.Txs) > 0 {
			_ = cl.TxIndex(s.tr.Txs[len(s.tr.Txs)-1].Id)
		}
		time.Sleep(10 * time.Millisecond)
	}
	time.Sleep(5 * time.Second)
	synctest.Wait()
	var o []string
	for _, s := range srcs {
		id := s.m.Id()
		cl := d.Clients[id]
		if cl == nil {
			f("missing-client: the debugger has no client %s (clients %d)", id, len(d.Clients))
			continue
		}
		index := cl.MsgStruct.StatesIndex
		if !slices.Equal(index, s.m.StateNames()) {
			f("schema: client %s states index %v, machine %v", id, index, s.m.StateNames())
			continue
		}
		// (a) one record per traced transition, in order, with the machine's
		// real clocks
		last := -1
		nTx := 0
		for _, tx := range s.tr.Txs {
			if tx.IsCheck {
				continue
			}
			nTx++
			idx := cl.TxIndex(tx.Id)
			if idx < 0 {
				f("record-missing: %s transition %s (%s %v) has no record", id, tx.Id, tx.Type, tx.Called)
				continue
			}
			if idx <= last {
				f("record-order: %s transition %s is record #%d, its predecessor is #%d", id, tx.Id, idx, last)
			}
			last = idx
			r := cl.MsgTxs[idx]
			if !slices.Equal(r.Clocks, tx.MachTimeAtEnd) {
				f("record-clocks: %s record #%d (%s %v) carries clocks %v, the machine's time after that transition was %v", id, idx, tx.Type, tx.Called, r.Clocks, tx.MachTimeAtEnd)
			}
			if r.Accepted != tx.Accepted || r.Type != tx.Type || r.IsAuto != tx.IsAuto {
				f("record-meta: %s record #%d accepted=%v type=%s auto=%v, transition accepted=%v type=%s auto=%v", id, idx, r.Accepted, r.Type, r.IsAuto, tx.Accepted, tx.Type, tx.IsAuto)
			}
			if got := r.CalledStateNames(index); !kit.SameSet(got, tx.Called) {
				f("record-called: %s record #%d called %v, transition called %v", id, idx, got, tx.Called)
			}
			if got, want := r.ActiveStates(index), s.tr.Txs[0].Before; false && got != nil && want != nil {
				_ = got
			}
		}
		// (b) derived data follows from consecutive records
		if len(cl.MsgTxsParsed) != len(cl.MsgTxs) {
			f("parsed-len: %s has %d records and %d parsed records", id, len(cl.MsgTxs), len(cl.MsgTxsParsed))
			continue
		}
		var wantErrs []int
		for i, r := range cl.MsgTxs {
			pr := cl.MsgTxsParsed[i]
			var sum uint64
			for _, v := range r.Clocks {
				sum += v
			}
			if pr.TimeSum != sum {
				f("parsed-sum: %s record #%d TimeSum %d, clocks sum %d", id, i, pr.TimeSum, sum)
			}
			var prev am.Time
			var prevSum uint64
			if i > 0 {
				prev = cl.MsgTxs[i-1].Clocks
				prevSum = cl.MsgTxsParsed[i-1].TimeSum
			}
			if pr.TimeDiff != sum-prevSum {
				f("parsed-diff: %s record #%d TimeDiff %d, want %d", id, i, pr.TimeDiff, sum-prevSum)
			}
			var added, removed []int
			for k, v := range r.Clocks {
				was := k < len(prev) && prev[k]%2 == 1
				is := v%2 == 1
				// a state whose tick moved while it stayed active (Multi
				// re-entry) counts as added, by GetTransitionStates' documented rule
				if is && (!was || (k < len(prev) && prev[k] != v)) {
					added = append(added, k)
				}
				if !is && was {
					removed = append(removed, k)
				}
			}
			ga, gr := slices.Clone(pr.StatesAdded), slices.Clone(pr.StatesRemoved)
			sort.Ints(ga)
			sort.Ints(gr)
			if !slices.Equal(ga, added) || !slices.Equal(gr, removed) {
				f("parsed-states: %s record #%d added %v removed %v, consecutive clocks give added %v removed %v", id, i, ga, gr, added, removed)
			}
			isErr := false
			for k, n := range index {
				if (n == am.StateException || strings.HasPrefix(n, am.PrefixErr)) && r.Clocks[k]%2 == 1 {
					isErr = true
				}
			}
			if isErr {
				wantErrs = append([]int{i}, wantErrs...)
			}
		}
		if !slices.Equal(cl.Errors, wantErrs) && !(len(cl.Errors) == 0 && len(wantErrs) == 0) {
			f("errors-index: %s error index %v, records with an active error state %v (newest first)", id, cl.Errors, wantErrs)
		}
		// (c) lookups = linear scans
		n := len(cl.MsgTxs)
		for i, r := range cl.MsgTxs {
			if got := cl.TxIndex(r.ID); got != i && (got < 0 || cl.MsgTxs[got].ID != r.ID) {
				f("lookup-id: %s TxIndex(%s) = %d, a linear scan finds the record at #%d", id, r.ID, got, i)
			}
			for _, q := range []uint64{r.QueueTick, r.QueueTick + 1} {
				want := n - 1
				for k, x := range cl.MsgTxs {
					if x.QueueTick >= q {
						want = k
						break
					}
				}
				if got := cl.TxAtQueueTick(q); got != want {
					f("lookup-queue-tick: %s TxAtQueueTick(%d) = %d, a linear scan gives %d", id, q, got, want)
				}
			}
			sum := cl.MsgTxsParsed[i].TimeSum
			want := 0
			for k, x := range cl.MsgTxsParsed {
				if x.TimeSum == sum {
					want = k
					break
				}
			}
			if got := cl.TxAtMachTime(sum); got != want && cl.MsgTxsParsed[got].TimeSum != sum {
				f("lookup-mach-time: %s TxAtMachTime(%d) = %d (time sum %d), a record with that sum is #%d", id, sum, got, cl.MsgTxsParsed[got].TimeSum, want)
			}
			for _, dist := range []int{1, 2, 5} {
				want := false
				for _, e := range wantErrs {
					if e == i || (e < i && i-e < dist) {
						want = true
					}
				}
				if got := cl.HadErrSinceTx(i, dist); got != want {
					f("lookup-err: %s HadErrSinceTx(%d, %d) = %v, a scan of the records gives %v (errors at %v)", id, i, dist, got, want, wantErrs)
				}
			}
		}
		o = append(o, fmt.Sprintf("%s: %d transitions, %d records, errors %v", id, nTx, n, cl.Errors))
	}
	if len(bad) == 0 {
		curDbg.Store(d)
		phase.Store("navigate")
		bad = append(bad, navigate(ctx, d, srcs[0].m.Id())...)
		phase.Store("")
	}
	if len(bad) == 0 {
		bad = append(bad, exportImport(ctx, d, dir, p)...)
	}
	if verbose {
		fmt.Println("  debugger:", d.Mach.String(), "err:", d.Mach.Err())
	}
	// tear down
	for _, s := range srcs {
		s.m.Dispose()
	}
	d.Dispose()
	cancel()
	time.Sleep(2 * time.Minute)
	return bad, strings.Join(o, " | ")
}

// navigate: cursor consistency under forward/back and filters.
func navigate(ctx context.Context, d *debugger.Debugger, id string) (bad []string) {
	f := func(format string, a ...any) {
		if len(bad) < 20 {
			bad = append(bad, fmt.Sprintf(format, a...))
		}
	}
	settle := func() { time.Sleep(3 * time.Second); synctest.Wait() }
	if os.Getenv("C16_LOG") != "" {
		d.Mach.SemLogger().SetSimple(func(f string, a ...any) {
			if s := fmt.Sprintf(f, a...); strings.Contains(s, "rror") || strings.Contains(s, "panic") {
				fmt.Println("    DBG:", s[:min(len(s), 300)])
			}
		}, am.LogChanges)
	}
	d.Mach.Add1(ss.SwitchingClientTx, am.Pass(&types.A{ClientId: id, CursorTx1: 1}))
	settle()
	c := d.C
	if c == nil || c.Id != id {
		f("nav-select: selecting client %s left the debugger on %v", id, c)
		return
	}
	n := len(c.MsgTxs)
	tools := map[string]types.ToolName{ss.FilterCanceledTx: types.ToolFilterCanceledTx, ss.FilterQueuedTx: types.ToolFilterQueuedTx, ss.FilterEmptyTx: types.ToolFilterEmptyTx, ss.FilterChecks: types.ToolFilterChecks, ss.FilterHealth: types.ToolFilterHealth}
	toggled := []string{ss.FilterCanceledTx, ss.FilterQueuedTx, ss.FilterEmptyTx, ss.FilterChecks, ss.FilterHealth}
	filterSets := [][]string{{ss.FilterChecks, ss.FilterHealth}, nil, {ss.FilterCanceledTx}, {ss.FilterQueuedTx}, {ss.FilterEmptyTx}, {ss.FilterCanceledTx, ss.FilterQueuedTx, ss.FilterEmptyTx}}
	for _, fs := range filterSets {
		// toggle the toolbar filters (the way the UI does) until the set is on
		for _, st := range toggled {
			if d.Mach.Is1(st) != slices.Contains(fs, st) {
				d.Mach.Add1(ss.ToggleTool, am.Pass(&types.A{ToolName: tools[st]}))
				settle()
			}
		}
		// the auto filter is a three-way toolbar button: cycle it until the
		// wanted combination is on (auto filters off for the empty set)
		wantAuto := len(fs) != 0
		for k := 0; k < 4 && (d.Mach.Any1(ss.FilterAutoTx, ss.FilterAutoCanceledTx) != wantAuto || (wantAuto && d.Mach.Is1(ss.FilterAutoTx))); k++ {
			d.Mach.Add1(ss.ToggleTool, am.Pass(&types.A{ToolName: types.ToolFilterAutoTx}))
			settle()
		}
		var on []string
		for _, st := range ssdbg.DebuggerGroups.Filters {
			if d.Mach.Is1(st) {
				on = append(on, st)
			}
		}
		// judged: only what the filters decide from the record alone
		skipped := func(i int) (skip, judged bool) {
			tx, pr := c.MsgTxs[i], c.MsgTxsParsed[i]
			if tx.IsAuto && tx.IsQueued {
				return false, false // depends on the transition that executed it
			}
			for _, x := range on {
				switch x {
				case ss.FilterCanceledTx:
					if !tx.Accepted {
						return true, true
					}
				case ss.FilterAutoTx:
					if tx.IsAuto {
						return true, true
					}
				case ss.FilterAutoCanceledTx:
					if tx.IsAuto && !tx.Accepted {
						return true, true
					}
				case ss.FilterQueuedTx:
					if tx.IsQueued {
						return true, true
					}
				case ss.FilterChecks:
					if tx.IsCheck {
						return true, true
					}
				case ss.FilterEmptyTx:
					if pr.TimeDiff == 0 && !tx.IsQueued && tx.Accepted {
						return true, true
					}
				}
			}
			return false, true
		}
		// the filtered view lists exactly the matching records
		if len(on) > 0 {
			for i := 0; i < n; i++ {
				sk, judged := skipped(i)
				if judged && sk == slices.Contains(c.MsgTxsFiltered, i) {
					f("filter-view: with filters %v record #%d (accepted=%v auto=%v queued=%v check=%v diff=%d) is %s the filtered view", on, i, c.MsgTxs[i].Accepted, c.MsgTxs[i].IsAuto, c.MsgTxs[i].IsQueued, c.MsgTxs[i].IsCheck, c.MsgTxsParsed[i].TimeDiff, map[bool]string{true: "in", false: "missing from"}[sk])
				}
			}
		}
		for start := 1; start <= n; start++ {
			d.Mach.Add1(ss.ScrollToTx, am.Pass(&types.A{CursorTx1: start}))
			settle()
			at := c.CursorTx1
			if at < 0 || at > n {
				f("nav-range: cursor %d outside 0..%d after ScrollToTx(%d) with filters %v", at, n, start, on)
				continue
			}
			if at > 0 {
				if sk, judged := skipped(at - 1); sk && judged {
					f("nav-filter: ScrollToTx(%d) with filters %v shows record #%d, which the filters exclude", start, on, at-1)
				}
			}
			// forward then back returns
			d.Mach.Add1(ss.UserFwd, nil)
			settle()
			fwd := c.CursorTx1
			if fwd < 0 || fwd > n {
				f("nav-range: cursor %d outside 0..%d after a step forward from %d with filters %v", fwd, n, at, on)
				continue
			}
			if fwd > 0 {
				if sk, judged := skipped(fwd - 1); sk && judged {
					f("nav-filter: a step forward from %d with filters %v shows record #%d, which the filters exclude", at, on, fwd-1)
				}
			}
			if fwd < at {
				f("nav-fwd: a step forward from %d moved the cursor back to %d (filters %v)", at, fwd, on)
			}
			if fwd != at && at > 0 {
				d.Mach.Add1(ss.UserBack, nil)
				settle()
				if back := c.CursorTx1; back != at {
					f("nav-roundtrip: forward from %d went to %d, back went to %d (filters %v)", at, fwd, back, on)
				}
			}
		}
	}
	if err := d.Mach.Err(); err != nil {
		f("nav-error: the debugger machine reported an error while navigating: %v", err)
	}
	return
}

// exportImport: an exported session imports to the same records.
func exportImport(ctx context.Context, d *debugger.Debugger, dir string, p types.Params) (bad []string) {
	debugger.VerifExport(d, "sess")
	path := filepath.Join(dir, "sess.gob.br")
	if _, err := os.Stat(path); err != nil {
		return []string{"export: no file written: " + err.Error()}
	}
	screen := tcell.NewSimulationScreen("utf8")
	screen.SetSize(120, 50)
	_ = screen.Init()
	p.Screen = screen
	p.Id = "d2"
	p.ListenAddr = "-1"
	d2, err := debugger.New(ctx, p)
	if err != nil {
		return []string{"import: " + err.Error()}
	}
	debugger.VerifImport(d2, path)
	time.Sleep(2 * time.Second)
	for id, c := range d.Clients {
		c2 := d2.Clients[id]
		if c2 == nil {
			bad = append(bad, fmt.Sprintf("import: client %s missing after import", id))
			continue
		}
		if len(c2.MsgTxs) != len(c.MsgTxs) || len(c2.MsgTxsParsed) != len(c.MsgTxsParsed) {
			bad = append(bad, fmt.Sprintf("import: client %s has %d/%d records after import, %d/%d before export", id, len(c2.MsgTxs), len(c2.MsgTxsParsed), len(c.MsgTxs), len(c.MsgTxsParsed)))
			continue
		}
		for i := range c.MsgTxs {
			a, b := c.MsgTxs[i], c2.MsgTxs[i]
			if a.ID != b.ID || !slices.Equal(a.Clocks, b.Clocks) || a.Accepted != b.Accepted || a.QueueTick != b.QueueTick {
				bad = append(bad, fmt.Sprintf("import: client %s record #%d differs after import (%s %v vs %s %v)", id, i, a.ID, a.Clocks, b.ID, b.Clocks))
				break
			}
			pa, pb := c.MsgTxsParsed[i], c2.MsgTxsParsed[i]
			if pa.TimeSum != pb.TimeSum || pa.TimeDiff != pb.TimeDiff || !slices.Equal(pa.StatesAdded, pb.StatesAdded) || !slices.Equal(pa.StatesRemoved, pb.StatesRemoved) {
				bad = append(bad, fmt.Sprintf("import: client %s parsed record #%d differs after import", id, i))
				break
			}
		}
		if !slices.Equal(c.Errors, c2.Errors) && len(c.Errors)+len(c2.Errors) > 0 {
			bad = append(bad, fmt.Sprintf("import: client %s error index %v after import, %v before", id, c2.Errors, c.Errors))
		}
	}
	d2.Dispose()
	return
}

// phase / curDbg: what the execution is doing, for the watchdog.
var (
	phase  atomic.Value
	curDbg atomic.Pointer[debugger.Debugger]
)

func bubble(t *testing.T, rep *kit.Report, what any, f func()) {
	done := make(chan struct{})
	go func() {
		select {
		case <-done:
		case <-time.After(90 * time.Second):
			// a navigation command that never returns while the debugger
			// machine keeps reporting an error is the debugger spinning (each
			// redraw panics and the Exception handling redraws), not the harness
			if d := curDbg.Load(); d != nil && phase.Load() == "navigate" && d.Mach.Err() != nil {
				rep.Violate("c16:nav-livelock", fmt.Sprintf("nav-livelock: a navigation command did not return within 90s (real time) while the debugger machine reports: %v :: %v", d.Mach.Err(), what), what)
				rep.Write()
				os.Exit(1)
			}
			rep.HarnessError("bubble stuck for 90s (real time) in %v", what)
			rep.Write()
			buf := make([]byte, 1<<20)
			os.Stderr.Write(buf[:runtime.Stack(buf, true)])
			os.Exit(2)
		}
	}()
	defer close(done)
	defer func() {
		if p := recover(); p != nil {
			if strings.Contains(fmt.Sprint(p), "blocked goroutines remain") {
				rep.Add("leaked_goroutines_runs", 1)
				return
			}
			panic(p)
		}
	}()
	synctest.Test(t, func(t *testing.T) { f() })
}

var alphabet = []string{"add:A", "remove:A", "add:B", "add:C", "add:E", "adderr", "remove:Exception,ErrX", "set:B", "add:A,C"}

func TestCheck(t *testing.T) {
	rep := kit.NewReport("C16")
	defer rep.Write()
	work := os.Getenv("AMC_WORK")
	if work == "" {
		work = os.TempDir()
	}
	mkdir := func(tag string) string {
		d := filepath.Join(work, "c16-"+tag)
		os.RemoveAll(d)
		os.MkdirAll(d, 0o755)
		return d
	}
	if kit.ReplayPath() != "" {
		var c caseT
		if err := kit.LoadReplay(&c); err != nil {
			t.Fatal(err)
		}
		var bad []string
		var obs string
		dir := mkdir("replay")
		bubble(t, rep, c, func() { bad, obs = runCase(c, dir, true) })
		fmt.Println("replay", c, obs)
		for _, b := range bad {
			fmt.Println("  violation:", b)
			rep.Violate("c16:"+sigOf(b), b, c)
		}
		rep.Add("states", 1)
		rep.Add("transitions", int64(len(c.Hist)))
		os.RemoveAll(dir)
		return
	}
	if h, ok := os.LookupEnv("C16_HIST"); ok {
		c := caseT{strings.Fields(h), 1}
		var bad []string
		var obs string
		dir := mkdir("one")
		bubble(t, rep, c, func() { bad, obs = runCase(c, dir, true) })
		fmt.Println(obs)
		for _, b := range bad {
			fmt.Println("  BAD:", b)
		}
		return
	}
	depth := 3
	if kit.Thorough() {
		depth = 4
	}
	var hists [][]string
	var rec func(h []string)
	rec = func(h []string) {
		if len(h) > 0 {
			hists = append(hists, slices.Clone(h))
		}
		if len(h) == depth {
			return
		}
		for _, e := range alphabet {
			rec(append(h, e))
		}
	}
	rec(nil)
	shard, nshard := kit.Shard()
	n := 0
	for hi, h := range hists {
		for _, clients := range []int{1, 2} {
			if clients == 2 && hi%5 != 0 {
				continue
			}
			n++
			if n%nshard != shard {
				continue
			}
			if rep.OverBudget() {
				rep.NotExhaustive("budget")
				return
			}
			c := caseT{h, clients}
			var bad []string
			var obs string
			dir := mkdir(fmt.Sprintf("%d-%d", shard, n))
			bubble(t, rep, c, func() { bad, obs = runCase(c, dir, false) })
			os.RemoveAll(dir)
			rep.Add("evaluations", 1)
			rep.Add("transitions", int64(len(h)))
			rep.Distinct("outcomes", obs)
			if strings.Contains(obs, "errors [") && !strings.Contains(obs, "errors []") {
				rep.Add("nontrivial", 1)
			}
			seen := map[string]bool{}
			for _, b := range bad {
				sig := "c16:" + sigOf(b)
				if seen[sig] {
					continue
				}
				seen[sig] = true
				rep.Violate(sig, fmt.Sprintf("%s :: hist=%v clients=%d", b, h, clients), c)
			}
		}
	}
	rep.Add("states", int64(len(hists)))
	rep.Note("grid", fmt.Sprintf("%d histories (depth <= %d over %d events), every 5th also with 2 clients", len(hists), depth, len(alphabet)))
}
