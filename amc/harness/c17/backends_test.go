package c17

import (
	"context"
	"fmt"
	"os"
	"path/filepath"
	"slices"
	"strings"
	"sync"
	"time"

	"amc/kit"

	amhist "github.com/pancsta/asyncmachine-go/pkg/history"
	ambadger "github.com/pancsta/asyncmachine-go/pkg/history/badger"
	ambbolt "github.com/pancsta/asyncmachine-go/pkg/history/bbolt"
	amgorm "github.com/pancsta/asyncmachine-go/pkg/history/gorm"
	am "github.com/pancsta/asyncmachine-go/pkg/machine"
)

type backend struct {
	name string
	open func(dir string, m *am.Machine, c amhist.BaseConfig) (amhist.MemoryApi, func(), error)
}

// backendErrs collects what the backends report through their onErr callback,
// keyed by database directory.
var backendErrs sync.Map

func onErrFor(dir string) func(error) {
	return func(err error) {
		if err != nil {
			backendErrs.Store(dir, err.Error())
		}
	}
}

func errOf(dir string) string {
	if v, ok := backendErrs.LoadAndDelete(dir); ok {
		return v.(string)
	}
	return ""
}

var backends = []backend{
	{"bbolt", func(dir string, m *am.Machine, c amhist.BaseConfig) (amhist.MemoryApi, func(), error) {
		db, err := ambbolt.NewDb(filepath.Join(dir, "h"))
		if err != nil {
			return nil, nil, err
		}
		mem, err := ambbolt.NewMemory(context.Background(), db, m, ambbolt.Config{BaseConfig: c, QueueBatch: 2}, onErrFor(dir))
		return mem, func() { db.Close() }, err
	}},
	{"badger", func(dir string, m *am.Machine, c amhist.BaseConfig) (amhist.MemoryApi, func(), error) {
		db, err := ambadger.NewDb(filepath.Join(dir, "h"))
		if err != nil {
			return nil, nil, err
		}
		mem, err := ambadger.NewMemory(context.Background(), db, m, ambadger.Config{BaseConfig: c, QueueBatch: 2}, onErrFor(dir))
		return mem, func() { db.Close() }, err
	}},
	{"gorm", func(dir string, m *am.Machine, c amhist.BaseConfig) (amhist.MemoryApi, func(), error) {
		db, sdb, err := amgorm.NewDb(filepath.Join(dir, "h"), false)
		if err != nil {
			return nil, nil, err
		}
		mem, err := amgorm.NewMemory(context.Background(), db, m, amgorm.Config{BaseConfig: c, QueueBatch: 2}, onErrFor(dir))
		return mem, func() { sdb.Close() }, err
	}},
}

// crossBackends runs a reduced grid on every persistent backend (real files,
// real time) and compares its answers, after Sync, with the in-memory backend
// fed by the same history.
// onlyBackend / onlyLong restrict the persistent-backend scenarios (replay).
var (
	onlyBackend string
	onlyLong    [2]int // toggles, MaxRecords
)

func crossBackends(rep *kit.Report, hists [][]kit.Step, cfgs []cfgT) {
	work := os.Getenv("AMC_WORK")
	if work == "" {
		work = os.TempDir()
	}
	ctx := context.Background()
	type job struct {
		hi, ci int
		be     backend
	}
	var jobs []job
	for hi := range hists {
		for ci := range cfgs {
			for _, be := range backends {
				if onlyBackend != "" && be.name != onlyBackend {
					continue
				}
				jobs = append(jobs, job{hi, ci, be})
			}
		}
	}
	n := len(jobs)
	kit.Par(n, func(ji int) {
		{
			{
				hi, ci, be := jobs[ji].hi, jobs[ji].ci, jobs[ji].be
				h, c := hists[hi], cfgs[ci]
				if rep.OverBudget() {
					rep.NotExhaustive("budget (persistent backends)")
					return
				}
				dir := filepath.Join(work, fmt.Sprintf("c17-%s-%d-%d", be.name, hi, ci))
				os.RemoveAll(dir)
				os.MkdirAll(dir, 0o755)
				func() {
					defer os.RemoveAll(dir)
					var bad []string
					defer func() {
						if p := recover(); p != nil {
							bad = append(bad, fmt.Sprintf("panic: %v", p))
						}
						if e := errOf(dir); e != "" {
							bad = append(bad, "backend-error: the backend reported: "+e)
						}
						for _, b := range bad {
							rep.Violate("c17:backend:"+be.name+":"+b[:idxc(b)], fmt.Sprintf("%s: %s :: hist=%v cfg=%+v", be.name, b, h, c), map[string]any{"backend": be.name, "hist": h, "cfg": c})
						}
					}()
					// two machines, same history: persistent backend and in-memory reference
					mk := func() *am.Machine {
						m := am.New(ctx, schema, &am.Opts{Id: "h"})
						if err := m.VerifyStates(names); err != nil {
							panic(err)
						}
						return m
					}
					m1, m2 := mk(), mk()
					ref, err := amhist.NewMemory(ctx, nil, m2, c.config(), func(error) {})
					if err != nil {
						return
					}
					mem, closeDb, err := be.open(dir, m1, c.config())
					if err != nil {
						bad = append(bad, "open: "+err.Error())
						return
					}
					closeOnce := sync.OnceFunc(closeDb)
					defer closeOnce()
					for _, s := range h {
						kit.SafeApply(s, m1)
						kit.SafeApply(s, m2)
					}
					if err := syncGuard(mem); err != "" {
						bad = append(bad, err)
						return
					}
					rep.Add("evaluations", 1)
					rep.Add("transitions", 1)
					rep.Distinct("backends", be.name)
					// "after Sync" must mean queryable: compare the record count
					// right away, then give an asynchronous writer up to 3 s so
					// that the content comparison below is still meaningful
					wantAll, _ := ref.FindLatest(ctx, false, 10, amhist.Query{})
					gotAll, _ := mem.FindLatest(ctx, false, 10, amhist.Query{})
					if len(gotAll) < len(wantAll) {
						deadline := time.Now().Add(3 * time.Second)
						for time.Now().Before(deadline) {
							time.Sleep(20 * time.Millisecond)
							if g, _ := mem.FindLatest(ctx, false, 10, amhist.Query{}); len(g) == len(wantAll) {
								bad = append(bad, fmt.Sprintf("sync-incomplete: right after Sync() returned, FindLatest saw %d of %d records (all there a moment later)", len(gotAll), len(wantAll)))
								break
							}
						}
					}
					// MTimeTracked is ordered like the backend's own
					// Config().TrackedStates
					render := func(api amhist.MemoryApi, rs []*amhist.MemoryRecord) []string {
						var out []string
						tr := api.Config().TrackedStates
						for _, r := range rs {
							var p []string
							for i, n := range tr {
								if i < len(r.Time.MTimeTracked) {
									p = append(p, fmt.Sprintf("%s:%d", n, r.Time.MTimeTracked[i]))
								}
							}
							slices.Sort(p)
							out = append(out, fmt.Sprintf("{%s sum=%d}", strings.Join(p, " "), r.Time.MTimeSum))
						}
						return out
					}
					var wAll, gAll []string
					cmp := func(qname string, q amhist.Query, limit int, dropOldest bool) {
						want, err1 := ref.FindLatest(ctx, false, limit, q)
						got, err2 := mem.FindLatest(ctx, false, limit, q)
						if err1 != nil || err2 != nil {
							if (err1 == nil) != (err2 == nil) {
								bad = append(bad, fmt.Sprintf("query-error: %s: memory err=%v, backend err=%v", qname, err1, err2))
							}
							return
						}
						w, g := render(ref, want), render(mem, got)
						if qname == "all" && limit == 10 {
							wAll, gAll = w, g
						}
						// a persistent backend collects garbage lazily and may
						// still hold records older than the in-memory window: then
						// the in-memory answer has to be the newest part of its
						// answer, and the change queries (which depend on where
						// the window starts) are not compared
						if extra := len(gAll) - len(wAll); extra > 0 && limit == 10 {
							if dropOldest {
								return
							}
							if len(g) >= len(w) && len(g)-len(w) <= extra && slices.Equal(g[:len(w)], w) {
								return
							}
						}
						if dropOldest && len(wAll) > 0 {
							// whether the oldest retained record "changed" the state
							// has no predecessor to be judged against
							oldest := wAll[len(wAll)-1]
							cut := func(l []string) []string {
								if len(l) > 0 && l[len(l)-1] == oldest {
									return l[:len(l)-1]
								}
								return l
							}
							w, g = cut(w), cut(g)
						}
						if slices.Equal(w, g) {
							return
						}
						// classify by root cause so that each finding is narrow;
						// anything unclassified keeps a per-query signature
						kind := "disagree-" + strings.Fields(qname)[0]
						switch {
						case len(w) > 0 && len(w) < limit && slices.Equal(w[:len(w)-1], g):
							kind = "oldest-record-missing"
						case qname != "all" && !slices.Equal(w, wAll) && slices.Equal(g, gAll):
							kind = "state-condition-ignored"
						case strings.HasPrefix(qname, "Activated ") && multiReactivationOnly(strings.Fields(qname)[1], w, g):
							kind = "multi-reactivation-activated"
						}
						bad = append(bad, fmt.Sprintf("%s: FindLatest(%s, limit %d): backend %v, in-memory %v", kind, qname, limit, g, w))
					}
					cmp("all", amhist.Query{}, 10, false)
					cmp("all", amhist.Query{}, 1, false)
					// with a Called/Changed filter the log skips transitions, and
					// "activated" may be read against the skipped transition or the
					// previous record: compared only for unfiltered logs
					unfiltered := len(c.Called) == 0 && len(c.Changed) == 0
					for _, s := range ref.Config().TrackedStates {
						cmp("Active "+s, amhist.Query{Active: am.S{s}}, 10, false)
						cmp("Inactive "+s, amhist.Query{Inactive: am.S{s}}, 10, false)
						if unfiltered {
							cmp("Activated "+s, amhist.Query{Activated: am.S{s}}, 10, true)
							cmp("Deactivated "+s, amhist.Query{Deactivated: am.S{s}}, 10, true)
						}
					}
					// stop and restart: close the database, open it again with a
					// fresh machine and memory; the log must be what it was, and a
					// further record must go on top of it
					before := gAll
					mem.Dispose()
					closeOnce()
					m3 := mk()
					mem3, closeDb3, err := be.open(dir, m3, c.config())
					if err != nil {
						bad = append(bad, "reopen: "+err.Error())
						return
					}
					defer closeDb3()
					rep.Add("transitions", 1)
					got3, err := mem3.FindLatest(ctx, false, 10, amhist.Query{})
					if g3 := render(mem3, got3); err != nil || !slices.Equal(g3, before) {
						bad = append(bad, fmt.Sprintf("reopen-lost: after closing and reopening the database FindLatest(all) = %v (err %v), before the stop %v", g3, err, before))
					} else {
						kit.SafeApply(kit.Step{Op: "add", Called: am.S{"B"}}, m3)
						if err := syncGuard(mem3); err != "" {
							bad = append(bad, err)
							return
						}
						got4, _ := mem3.FindLatest(ctx, false, 10, amhist.Query{})
						g4 := render(mem3, got4)
						extra := len(g4) - len(before)
						if extra < 0 || extra > 1 || !slices.Equal(g4[extra:], before) {
							bad = append(bad, fmt.Sprintf("reopen-append: one more mutation after reopening gives %v, the log before it was %v", g4, before))
						}
					}
					m3.Dispose()
					<-m3.WhenDisposed()
					m1.Dispose()
					m2.Dispose()
					<-m1.WhenDisposed()
					<-m2.WhenDisposed()
				}()
			}
		}
	})
	rep.Note("backend_cases", n)
}

// multiReactivationOnly: the backend's answer is the in-memory one plus
// records in which the (Multi) state was re-activated, i.e. active with a tick
// of 3 or more.
func multiReactivationOnly(state string, want, got []string) bool {
	if len(got) <= len(want) {
		return false
	}
	wi := 0
	for _, r := range got {
		if wi < len(want) && want[wi] == r {
			wi++
			continue
		}
		ok := false
		for _, f := range strings.Fields(strings.Trim(r, "{}")) {
			if n, t, found := strings.Cut(f, ":"); found && n == state {
				var tick int
				fmt.Sscanf(t, "%d", &tick)
				ok = tick%2 == 1 && tick >= 3
			}
		}
		if !ok {
			return false
		}
	}
	return wi == len(want)
}

// syncGuard calls Sync with a real-time guard (a hang is reported, not waited
// out).
func syncGuard(mem amhist.MemoryApi) string {
	done := make(chan error, 1)
	go func() { done <- mem.Sync() }()
	select {
	case err := <-done:
		if err != nil {
			return "sync: " + err.Error()
		}
	case <-time.After(20 * time.Second):
		return "sync-hang: Sync did not return within 20s"
	}
	return ""
}

func idxc(b string) int {
	for i, ch := range b {
		if ch == ':' {
			return i
		}
	}
	return len(b)
}

// longBackends: logs much longer than MaxRecords. The persistent backends
// collect garbage asynchronously, so the bound checked for them is loose
// (3x MaxRecords + one batch once the collector is idle); the newest
// MaxRecords records must be the in-memory ones.
func longBackends(rep *kit.Report) {
	work := os.Getenv("AMC_WORK")
	if work == "" {
		work = os.TempDir()
	}
	ctx := context.Background()
	type job struct {
		be     backend
		max, n int
	}
	var jobs []job
	for _, be := range backends {
		for _, mx := range []int{2, 5} {
			for _, n := range []int{8, 24, 60} {
				if onlyBackend != "" && (be.name != onlyBackend || onlyLong != [2]int{n, mx}) {
					continue
				}
				jobs = append(jobs, job{be, mx, n})
			}
		}
	}
	kit.Par(len(jobs), func(ji int) {
		j := jobs[ji]
		dir := filepath.Join(work, fmt.Sprintf("c17-long-%s-%d-%d", j.be.name, j.max, j.n))
		os.RemoveAll(dir)
		os.MkdirAll(dir, 0o755)
		defer os.RemoveAll(dir)
		var bad []string
		defer func() {
			if p := recover(); p != nil {
				bad = append(bad, fmt.Sprintf("panic: %v", p))
			}
			if e := errOf(dir); e != "" {
				bad = append(bad, "backend-error: the backend reported: "+e)
			}
			for _, b := range bad {
				rep.Violate("c17:backend:"+j.be.name+":"+b[:idxc(b)], fmt.Sprintf("%s: %s :: %d toggles of A, MaxRecords %d, QueueBatch 2", j.be.name, b, j.n, j.max), map[string]any{"backend": j.be.name, "long": j.n, "max": j.max})
			}
		}()
		mk := func() *am.Machine {
			m := am.New(ctx, schema, &am.Opts{Id: "h"})
			if err := m.VerifyStates(names); err != nil {
				panic(err)
			}
			return m
		}
		m1, m2 := mk(), mk()
		c := cfgT{Tracked: am.S{"A", "B"}, MaxRecords: j.max}
		ref, err := amhist.NewMemory(ctx, nil, m2, c.config(), func(error) {})
		if err != nil {
			panic(err)
		}
		mem, closeDb, err := j.be.open(dir, m1, c.config())
		if err != nil {
			bad = append(bad, "open: "+err.Error())
			return
		}
		defer closeDb()
		// the log never holds fewer than min(MaxRecords, records so far): looked
		// at after every flushed batch, a little later too (the collector runs on
		// its own)
		minSeen := func(total int) {
			for k := 0; k < 3; k++ {
				got, _ := mem.FindLatest(ctx, false, 0, amhist.Query{})
				if want := min(j.max, total); len(got) < want {
					bad = append(bad, fmt.Sprintf("over-collected: %d records in the log after %d recorded transitions, MaxRecords %d", len(got), total, j.max))
					return
				}
				time.Sleep(15 * time.Millisecond)
			}
		}
		for i := 0; i < j.n; i++ {
			for _, m := range []*am.Machine{m1, m2} {
				if i%2 == 0 {
					m.Add1("A", nil)
				} else {
					m.Remove1("A", nil)
				}
			}
			if i%2 == 1 && len(bad) == 0 {
				if e := syncGuard(mem); e != "" {
					bad = append(bad, e)
					return
				}
				minSeen(i + 1)
			}
		}
		if e := syncGuard(mem); e != "" {
			bad = append(bad, e)
			return
		}
		// the collector only runs when a batch is flushed by the tracer and
		// counts completed writes: give it two more batches after the burst
		// has been written
		for i := j.n; i < j.n+4; i++ {
			for _, m := range []*am.Machine{m1, m2} {
				if i%2 == 0 {
					m.Add1("A", nil)
				} else {
					m.Remove1("A", nil)
				}
			}
			if i%2 == 1 {
				if e := syncGuard(mem); e != "" {
					bad = append(bad, e)
					return
				}
			}
		}
		rep.Add("evaluations", 1)
		rep.Add("transitions", int64(j.n+4))
		sums := func(rs []*amhist.MemoryRecord) []uint64 {
			var out []uint64
			for _, r := range rs {
				out = append(out, r.Time.MTimeSum)
			}
			return out
		}
		want, _ := ref.FindLatest(ctx, false, 0, amhist.Query{})
		if len(want) != min(j.max, j.n+4) {
			bad = append(bad, fmt.Sprintf("memory-bound: in-memory log has %d records, MaxRecords %d", len(want), j.max))
		}
		// the collector is asynchronous: poll (bounded) until the log is small
		bound := 3*j.max + 2
		var got []*amhist.MemoryRecord
		deadline := time.Now().Add(5 * time.Second)
		for {
			got, _ = mem.FindLatest(ctx, false, 0, amhist.Query{})
			if len(got) <= bound || time.Now().After(deadline) {
				break
			}
			time.Sleep(50 * time.Millisecond)
		}
		if len(got) > bound {
			bad = append(bad, fmt.Sprintf("unbounded: %d records retained with MaxRecords %d (loose bound %d)", len(got), j.max, bound))
		}
		k := min(j.max, j.n+4)
		if len(got) < k || !slices.Equal(sums(got[:k]), sums(want[:k])) {
			bad = append(bad, fmt.Sprintf("newest-differ: newest %d records have time sums %v, in-memory %v", k, sums(got[:min(k, len(got))]), sums(want[:k])))
		}
		m1.Dispose()
		m2.Dispose()
		<-m1.WhenDisposed()
		<-m2.WhenDisposed()
	})
	rep.Note("backend_long_cases", len(jobs))
}
