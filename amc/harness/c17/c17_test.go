// C17 - history is a faithful, bounded log; queries and Export/Import mean
// what they say.
//
// Bounded-exhaustive (SEQ): every history of depth <= D over a small mutation
// alphabet on a 3-state schema (Multi, relation-rejected and handler-vetoed
// mutations included) x tracking configurations (tracked subsets, Called /
// Changed allow- and block-lists, TrackRejected, MaxRecords 1..3) x a grid of
// queries, against a reference log built from an independent recording tracer.
// Backends: in-memory exhaustively; bbolt / badger / gorm(sqlite) are compared
// with the in-memory answers on a reduced grid (real files, real time).
package c17

import (
	"context"
	"fmt"
	"slices"
	"strings"
	"testing"
	"testing/synctest"
	"time"

	"amc/kit"

	amhist "github.com/pancsta/asyncmachine-go/pkg/history"
	am "github.com/pancsta/asyncmachine-go/pkg/machine"
)

var schema = am.Schema{"A": {}, "B": {Multi: true}, "C": {Require: am.S{"A"}}, "V": {}}
var names = am.S{"A", "B", "C", "V", am.StateException}

type cfgT struct {
	Tracked        am.S `json:"tracked"`
	Called         am.S `json:"called,omitempty"`
	CalledExclude  bool `json:"called_exclude,omitempty"`
	Changed        am.S `json:"changed,omitempty"`
	ChangedExclude bool `json:"changed_exclude,omitempty"`
	TrackRejected  bool `json:"track_rejected,omitempty"`
	MaxRecords     int  `json:"max_records"`
}

type caseT struct {
	Hist []kit.Step `json:"hist"`
	Cfg  cfgT       `json:"cfg"`
}

func (c cfgT) config() amhist.BaseConfig {
	return amhist.BaseConfig{TrackedStates: c.Tracked, Called: c.Called, CalledExclude: c.CalledExclude,
		Changed: c.Changed, ChangedExclude: c.ChangedExclude, TrackRejected: c.TrackRejected, MaxRecords: c.MaxRecords}
}

// reference record of one matching transition
type refRec struct {
	before, after am.Time // full machine time
	accepted      bool
}

// expectedTracked mirrors NewMemory's documented rule: allow-lists join the tracked states.
func expectedTracked(m *am.Machine, c cfgT) am.S {
	t := slices.Clone(c.Tracked)
	if !c.CalledExclude {
		t = append(t, c.Called...)
	}
	if !c.ChangedExclude {
		t = append(t, c.Changed...)
	}
	// unique, known
	var out am.S
	for _, s := range t {
		if m.Has1(s) && !slices.Contains(out, s) {
			out = append(out, s)
		}
	}
	return out
}

// matches: the documented single-list semantics; ok=false when both lists are
// set (ambiguous in the docs: only cross-backend agreement is demanded).
func matches(c cfgT, tx kit.TxRec, index am.S) (match bool, ok bool) {
	if tx.IsCheck {
		return false, true
	}
	if !tx.Accepted && !c.TrackRejected {
		return false, true
	}
	if len(c.Called) > 0 && len(c.Changed) > 0 {
		return false, false
	}
	var changed am.S
	// the machine's own time once the transition ended, not the transition's
	// claim about it
	for i := range tx.Before {
		if tx.Before[i] != tx.MachTimeAtEnd[i] {
			changed = append(changed, index[i])
		}
	}
	switch {
	case len(c.Called) > 0:
		hit := len(kit.Inter(c.Called, tx.Called)) > 0
		return hit != c.CalledExclude, true
	case len(c.Changed) > 0:
		hit := len(kit.Inter(c.Changed, changed)) > 0
		return hit != c.ChangedExclude, true
	}
	return true, true
}

func runCase(c caseT) (bad []string, nontrivial bool) {
	f := func(format string, a ...any) { bad = append(bad, fmt.Sprintf(format, a...)) }
	defer func() {
		if p := recover(); p != nil {
			bad = append(bad, fmt.Sprintf("panic: %v", p))
		}
	}()
	ctx := context.Background()
	tr := kit.NewRecTracer("ref")
	m := am.New(ctx, schema, &am.Opts{Id: "h", Tracers: []am.Tracer{tr}})
	tr.Mach = m
	if err := m.VerifyStates(names); err != nil {
		panic(err)
	}
	m.HandlersBindMaps(map[string]am.HandlerNegotiation{"VEnter": func(e *am.Event) bool { return false }}, nil)
	defer func() {
		m.Dispose()
		<-m.WhenDisposed()
		time.Sleep(10 * time.Second)
	}()
	mem, err := amhist.NewMemory(ctx, nil, m, c.Cfg.config(), func(err error) {})
	if err != nil {
		if len(expectedTracked(m, c.Cfg)) == 0 {
			return nil, false // documented: no states to track
		}
		return []string{"setup: NewMemory: " + err.Error()}, false
	}
	tr.Reset()
	for _, s := range c.Hist {
		kit.SafeApply(s, m)
		time.Sleep(time.Second) // distinct human times (fake clock)
	}
	index := m.StateNames()
	tracked := mem.Config().TrackedStates
	if want := expectedTracked(m, c.Cfg); !kit.SameSet(tracked, want) {
		f("tracked: memory tracks %v, want %v", tracked, want)
		return
	}
	tidx := m.Index(tracked)
	// reference log
	var ref []refRec
	ambiguous := false
	for _, tx := range tr.Txs {
		match, ok := matches(c.Cfg, tx, index)
		if !ok {
			ambiguous = true
			break
		}
		if match {
			ref = append(ref, refRec{tx.Before, tx.MachTimeAtEnd, tx.Accepted})
		}
		if !tx.Accepted || tx.IsAuto {
			nontrivial = true
		}
	}
	recs := mem.Export()
	if !ambiguous {
		// one record per matching transition, in order, bounded exactly
		wantN := len(ref)
		if wantN > c.Cfg.MaxRecords {
			wantN = c.Cfg.MaxRecords
		}
		if len(recs) != wantN {
			f("count: %d records for %d matching transitions with MaxRecords=%d (want %d)", len(recs), len(ref), c.Cfg.MaxRecords, wantN)
			return
		}
		kept := ref[len(ref)-wantN:]
		for i, r := range recs {
			want := kept[i].after.Filter(tidx)
			if !slices.Equal(r.Time.MTimeTracked, want) {
				f("record-time: record #%d tracked time %v, machine time after that transition %v (tracked %v)", i, r.Time.MTimeTracked, want, tracked)
			}
			if r.Time.MTimeSum != kept[i].after.Sum(nil) {
				f("record-sum: record #%d MTimeSum %d, machine time sum after that transition %d", i, r.Time.MTimeSum, kept[i].after.Sum(nil))
			}
			if i > 0 && !r.Time.HTime.After(recs[i-1].Time.HTime) {
				f("order: record #%d is not later than its predecessor", i)
			}
		}
		if mr := mem.MachineRecord(); len(ref) > 0 && !slices.Equal(mr.MTime, ref[len(ref)-1].after) {
			f("machine-record: MachineRecord.MTime %v, last recorded transition ended at %v", mr.MTime, ref[len(ref)-1].after)
		}
		// queries against the reference (the retained records)
		active := func(t am.Time, s string) bool {
			i := slices.Index(index, s)
			return t[i]%2 == 1
		}
		type q struct {
			name string
			qry  amhist.Query
			pred func(k int) bool
			alt  func(k int) bool // alternative reading (vs the previous record)
		}
		for _, s := range tracked {
			s := s
			qs := []q{
				{"Active(" + s + ")", amhist.Query{Active: am.S{s}}, func(k int) bool { return active(kept[k].after, s) }, nil},
				{"Inactive(" + s + ")", amhist.Query{Inactive: am.S{s}}, func(k int) bool { return !active(kept[k].after, s) }, nil},
				{"Activated(" + s + ")", amhist.Query{Activated: am.S{s}}, func(k int) bool { return active(kept[k].after, s) && !active(kept[k].before, s) },
					func(k int) bool { return active(kept[k].after, s) && (k == 0 || !active(kept[k-1].after, s)) }},
				{"Deactivated(" + s + ")", amhist.Query{Deactivated: am.S{s}}, func(k int) bool { return !active(kept[k].after, s) && active(kept[k].before, s) },
					func(k int) bool { return !active(kept[k].after, s) && (k == 0 || active(kept[k-1].after, s)) }},
			}
			for _, qq := range qs {
				for _, limit := range []int{0, 1, 2} {
					for _, rng := range []int{0, 1} {
						query := qq.qry
						inRange := func(k int) bool { return true }
						if rng == 1 {
							if len(kept) < 2 {
								continue
							}
							lo, hi := kept[0].after.Sum(nil), kept[len(kept)-2].after.Sum(nil)
							if lo == 0 || hi == 0 {
								continue
							}
							query.Start.MTimeSum, query.End.MTimeSum = lo, hi
							inRange = func(k int) bool { v := kept[k].after.Sum(nil); return v >= lo && v <= hi }
						}
						res, err := mem.FindLatest(ctx, false, limit, query)
						if err != nil {
							f("query-error: %s: %v", qq.name, err)
							continue
						}
						build := func(pred func(int) bool) []int {
							var want []int
							for k := len(kept) - 1; k >= 0; k-- {
								if pred(k) && inRange(k) {
									want = append(want, k)
									if limit > 0 && len(want) >= limit {
										break
									}
								}
							}
							return want
						}
						var got []int
						for _, r := range res {
							got = append(got, slices.Index(recs, r))
						}
						want := build(qq.pred)
						okRes := slices.Equal(got, want)
						if !okRes && qq.alt != nil && slices.Equal(got, build(qq.alt)) {
							okRes = true
						}
						if !okRes {
							f("query: FindLatest(%s, limit %d, range %v) returned records %v, want %v (newest first; %d records kept)", strings.SplitN(qq.name, "(", 2)[0], limit, rng == 1, got, want, len(kept))
						}
					}
				}
			}
			// the *Between helpers over the whole human-time span
			if len(recs) > 0 {
				start, end := recs[0].Time.HTime.Add(-time.Hour), recs[len(recs)-1].Time.HTime.Add(time.Hour)
				any := func(pred func(int) bool) bool {
					for k := range kept {
						if pred(k) {
							return true
						}
					}
					return false
				}
				if got, want := mem.ActiveBetween(ctx, s, start, end), any(func(k int) bool { return active(kept[k].after, s) }); got != want {
					f("between: ActiveBetween(%s) = %v, want %v", s, got, want)
				}
				if got, want := mem.InactiveBetween(ctx, s, start, end), any(func(k int) bool { return !active(kept[k].after, s) }); got != want {
					f("between: InactiveBetween(%s) = %v, want %v", s, got, want)
				}
			}
		}
	}
	// Export -> Import
	ser, sch, err := m.Export()
	if err == nil {
		m2 := am.New(ctx, sch, &am.Opts{Id: "h"})
		if err := m2.VerifyStates(ser.StateNames); err == nil {
			if err := m2.Import(ser); err != nil {
				f("import: %v", err)
			} else {
				if !slices.Equal(m2.Time(nil), m.Time(nil)) || !kit.SameSet(m2.ActiveStates(nil), m.ActiveStates(nil)) {
					f("import: imported machine has time %v active %v, source %v %v", m2.Time(nil), m2.ActiveStates(nil), m.Time(nil), m.ActiveStates(nil))
				}
				if m2.MachineTick() != m.MachineTick()+1 {
					f("import: machine tick %d after import, source %d (want +1)", m2.MachineTick(), m.MachineTick())
				}
			}
		}
	}
	return
}

func TestCheck(t *testing.T) {
	rep := kit.NewReport("C17")
	defer rep.Write()
	if kit.ReplayPath() != "" {
		var c caseT
		if err := kit.LoadReplay(&c); err != nil {
			t.Fatal(err)
		}
		var b struct {
			Backend string `json:"backend"`
			Long    int    `json:"long"`
			Max     int    `json:"max"`
		}
		if kit.LoadReplay(&b); b.Backend != "" {
			onlyBackend = b.Backend
			if b.Long > 0 {
				onlyLong = [2]int{b.Long, b.Max}
				longBackends(rep)
			} else {
				// the persistent backends write from their own goroutines in
				// real time: what a replay shows depends on their timing, so it
				// is repeated when the replay file asks for it ("repeat": n; until a violation shows)
				reps := 1
				var rr struct {
					Repeat int `json:"repeat"`
				}
				if kit.LoadReplay(&rr); rr.Repeat > 1 {
					reps = rr.Repeat
				}
				for i := 0; i < reps && len(rep.Violations) == 0; i++ {
					crossBackends(rep, [][]kit.Step{c.Hist}, []cfgT{c.Cfg})
				}
			}
			for _, v := range rep.Violations {
				fmt.Println("  violation:", v.Detail)
			}
			rep.Add("states", 1)
			return
		}
		synctest.Test(t, func(t *testing.T) {
			bad, _ := runCase(c)
			fmt.Printf("replay %+v\n", c)
			for _, b := range bad {
				fmt.Println("  violation:", b)
				rep.Violate("c17:"+b[:strings.Index(b, ":")], b, c)
			}
		})
		rep.Add("states", 1)
		rep.Add("transitions", 1)
		return
	}
	shard, nshard := kit.Shard()
	S := func(op string, st ...string) kit.Step { return kit.Step{Op: op, Called: st} }
	alphabet := []kit.Step{S("add", "A"), S("add", "B"), S("add", "C"), S("remove", "A"), S("add", "V"), S("set", "B"), S("canadd", "A")}
	depth := 3
	if kit.Thorough() {
		depth = 4
	}
	var hists [][]kit.Step
	var rec func(h []kit.Step)
	rec = func(h []kit.Step) {
		if len(h) == depth {
			hists = append(hists, slices.Clone(h))
			return
		}
		for _, o := range alphabet {
			rec(append(h, o))
		}
	}
	rec(nil)
	var cfgs []cfgT
	for _, tr := range []am.S{{"A"}, {"A", "B"}, {"B", "C"}, {"A", "B", "C", "V"}} {
		for _, mx := range []int{1, 2, 3} {
			cfgs = append(cfgs, cfgT{Tracked: tr, MaxRecords: mx})
		}
		cfgs = append(cfgs, cfgT{Tracked: tr, MaxRecords: 3, TrackRejected: true})
		cfgs = append(cfgs, cfgT{Tracked: tr, MaxRecords: 3, Called: am.S{"A"}})
		cfgs = append(cfgs, cfgT{Tracked: tr, MaxRecords: 3, Called: am.S{"B"}, CalledExclude: true})
		cfgs = append(cfgs, cfgT{Tracked: tr, MaxRecords: 3, Changed: am.S{"C"}})
		cfgs = append(cfgs, cfgT{Tracked: tr, MaxRecords: 3, Changed: am.S{"A"}, ChangedExclude: true})
	}
	rep.Note("grid", fmt.Sprintf("%d histories (depth %d) x %d configs", len(hists), depth, len(cfgs)))
	type job struct {
		h []kit.Step
		c cfgT
	}
	var jobs []job
	for _, h := range hists {
		for _, c := range cfgs {
			jobs = append(jobs, job{h, c})
		}
	}
	kit.Par(len(jobs), func(i int) {
		if i%nshard != shard {
			return
		}
		if rep.OverBudget() {
			rep.NotExhaustive("budget")
			return
		}
		c := caseT{jobs[i].h, jobs[i].c}
		var bad []string
		var nt bool
		synctest.Test(t, func(t *testing.T) { bad, nt = runCase(c) })
		rep.Add("evaluations", 1)
		rep.Add("transitions", 1)
		if nt {
			rep.Add("nontrivial", 1)
		}
		for _, b := range bad {
			sig := "c17:" + b[:strings.Index(b, ":")]
			if strings.HasPrefix(b, "query:") {
				sig += ":" + strings.SplitN(strings.TrimPrefix(b, "query: FindLatest("), ",", 2)[0]
			}
			rep.Violate(sig, fmt.Sprintf("%s :: %+v", b, c), c)
		}
	})
	rep.Add("states", int64(len(hists)))
	rep.Sample(3, caseT{hists[len(hists)/2], cfgs[4]})
	if shard == 0 {
		// persistent backends: real files under the work directory, real time;
		// every 7th history x 9 configs quick, every history x every config
		// thorough
		step := 7
		bcfgs := []cfgT{cfgs[1], cfgs[2], cfgs[3], cfgs[4], cfgs[5], cfgs[6], cfgs[20], cfgs[len(cfgs)-2], cfgs[len(cfgs)-1]}
		if kit.Thorough() {
			step = 1
			bcfgs = cfgs
		}
		var hs [][]kit.Step
		for i := 3; i < len(hists); i += step {
			hs = append(hs, hists[i])
		}
		crossBackends(rep, hs, bcfgs)
		longBackends(rep)
	}
}
