// C02 - relations keep the active set consistent after every transition.
//
// Explicit-state search: for every schema of the enumerated spaces and every
// machine state reachable by Add/Remove/Set over any subset of states (BFS on
// the real machine), every transition the tracer reports is checked against
// the reference predicates R1-R3, J1-J2 (DESIGN section 5, C02).
package c02

import (
	"fmt"
	"slices"
	"testing"

	"amc/kit"

	am "github.com/pancsta/asyncmachine-go/pkg/machine"
)

func active(index am.S, t am.Time) am.S {
	var out am.S
	for i, v := range t {
		if v%2 == 1 && i < len(index) {
			out = append(out, index[i])
		}
	}
	return out
}

// addClosure: closure of s under the Add relation of schema.
func addClosure(sc am.Schema, s am.S) am.S {
	out := slices.Clone(s)
	for changed := true; changed; {
		changed = false
		for _, x := range out {
			for _, a := range sc[x].Add {
				if !kit.Has(out, a) {
					out = append(out, a)
					changed = true
				}
			}
		}
	}
	return out
}

type verdict struct {
	sig, detail string
}

// checkTx evaluates the reference predicates on one recorded transition.
func checkTx(sc am.Schema, index am.S, tx kit.TxRec) (vs []verdict, nontrivial bool) {
	B := active(index, tx.Before)
	T := active(index, tx.After)
	C := tx.Called
	if tx.IsCheck {
		if !slices.Equal(tx.Before, tx.After) {
			vs = append(vs, verdict{"check-changed", "check transition changed time"})
		}
		return
	}
	if !tx.Accepted {
		// J: nothing changes without justification - a canceled transition
		// justifies nothing.
		if !slices.Equal(tx.Before, tx.After) {
			vs = append(vs, verdict{"canceled-changed", fmt.Sprintf("canceled transition changed time %v -> %v", tx.Before, tx.After)})
		}
		return
	}
	// candidate set for the generous "excluded by a Remove relation" reading
	var seed am.S
	switch tx.Type {
	case am.MutationAdd:
		seed = kit.Union(B, C)
	case am.MutationSet:
		seed = C
	case am.MutationRemove:
		seed = kit.Diff(B, C)
	}
	cand := kit.Union(addClosure(sc, seed), T)
	removedBy := func(x string, zs am.S) bool {
		for _, z := range zs {
			if z != x && kit.Has(sc[z].Remove, x) {
				return true
			}
		}
		return false
	}
	// R1
	for _, x := range T {
		if !kit.Subset(sc[x].Require, T) {
			vs = append(vs, verdict{"R1", fmt.Sprintf("%s active without Require %v (T=%v)", x, sc[x].Require, T)})
		}
	}
	// R2
	for _, x := range T {
		for _, y := range T {
			if x != y && kit.Has(sc[x].Remove, y) {
				vs = append(vs, verdict{"R2", fmt.Sprintf("%s and %s both active though %s Removes %s", x, y, x, y)})
			}
		}
	}
	// R3
	for _, x := range kit.Diff(T, B) {
		for _, a := range sc[x].Add {
			if kit.Has(T, a) {
				continue
			}
			if removedBy(a, cand) || !kit.Subset(sc[a].Require, T) ||
				(tx.Type == am.MutationRemove && kit.Has(C, a)) {
				continue
			}
			vs = append(vs, verdict{"R3", fmt.Sprintf("%s activated but its Add state %s is inactive without excuse (B=%v C=%v T=%v)", x, a, B, C, T)})
		}
	}
	// J1
	for _, x := range kit.Diff(T, B) {
		ok := (tx.Type != am.MutationRemove && kit.Has(C, x)) // called (incl. auto-called)
		if !ok {
			// generous reading of "reachable through Add relations": from any
			// state that was active before, was called, or is active after
			for _, y := range kit.Union(cand, B) {
				if y != x && kit.Has(sc[y].Add, x) {
					ok = true
				}
			}
		}
		if !ok {
			vs = append(vs, verdict{"J1", fmt.Sprintf("%s became active without being called or Add-reachable (B=%v %s C=%v T=%v)", x, B, tx.Type, C, T)})
		}
	}
	// J2
	for _, x := range kit.Diff(B, T) {
		ok := (tx.Type == am.MutationRemove && kit.Has(C, x)) ||
			(tx.Type == am.MutationSet && !kit.Has(C, x)) ||
			removedBy(x, kit.Union(cand, C)) || !kit.Subset(sc[x].Require, T)
		if !ok {
			vs = append(vs, verdict{"J2", fmt.Sprintf("%s became inactive without justification (B=%v %s C=%v T=%v)", x, B, tx.Type, C, T)})
		}
	}
	// non-trivial: resolver changed the naive candidate set
	var naive am.S
	switch tx.Type {
	case am.MutationAdd:
		naive = kit.Union(B, C)
	case am.MutationSet:
		naive = C
	case am.MutationRemove:
		naive = kit.Diff(B, C)
	}
	nontrivial = !kit.SameSet(naive, T)
	return
}

// classify narrows a verdict to a named pattern used by known-findings.
func classify(sc am.Schema, index am.S, tx kit.TxRec, v verdict) string {
	B := active(index, tx.Before)
	T := active(index, tx.After)
	C := tx.Called
	switch v.sig {
	case "R2":
		// is there a conflicting pair whose remover was neither active before nor called?
		implied, other := false, false
		for _, x := range T {
			for _, y := range T {
				if x != y && kit.Has(sc[x].Remove, y) {
					// remover x was not called and is the Add target of another
					// target state: it (re-)entered the target through the Add
					// closure that runs after the resolver's blocking pass
					// (same for the removed state y entering that way, e.g. in
					// an auto transition whose called state Adds it)
					addImplied := func(s string) bool {
						for _, w := range kit.Union(T, C) {
							if w != s && kit.Has(sc[w].Add, s) {
								return true
							}
						}
						return false
					}
					// (a state both called - e.g. by the auto mutation - and
					// Add-implied enters the same way)
					if addImplied(x) || addImplied(y) {
						implied = true
					} else {
						other = true
					}
				}
			}
		}
		if implied && !other {
			return "c02:R2:remover-add-implied"
		}
		return "c02:R2:other"
	case "R3":
		// the missing Add target is >= 3 Add-edges away from every called state
		// (Add/Set) and from every state activated... measured on the schema graph
		seed := slices.Clone(C)
		for _, b := range B {
			if sc[b].Multi {
				seed = append(seed, b) // active Multi states re-apply their Add relation
			}
		}
		d := addDistance(sc, seed)
		min := 99
		for _, x := range kit.Diff(T, B) {
			for _, a := range sc[x].Add {
				if !kit.Has(T, a) {
					if dd, ok := d[a]; ok && dd < min {
						min = dd
					}
				}
			}
		}
		if min >= 3 && min < 99 {
			return "c02:R3:add-depth>=3"
		}
		return fmt.Sprintf("c02:R3:other(depth=%d)", min)
	}
	return "c02:" + v.sig
}

// addDistance: BFS distance over Add edges from the seed set.
func addDistance(sc am.Schema, seed am.S) map[string]int {
	d := map[string]int{}
	q := slices.Clone(seed)
	for _, s := range seed {
		d[s] = 0
	}
	for len(q) > 0 {
		x := q[0]
		q = q[1:]
		for _, a := range sc[x].Add {
			if _, ok := d[a]; !ok {
				d[a] = d[x] + 1
				q = append(q, a)
			}
		}
	}
	return d
}

func runSpec(rep *kit.Report, sp kit.Spec, label string, bothOrders bool, maxStates int) {
	if sp.HasReqRemConflict() {
		rep.Add("schemas_skipped_parse_conflict", 1)
		return
	}
	muts := kit.Mutations(sp, []string{"add", "remove", "set"}, bothOrders)
	var sc am.Schema
	st, tr, capped := kit.ExploreSpec(sp, muts, kit.ExploreOpts{MaxStates: maxStates}, func(t *kit.Trans) {
		if t.Panic != "" {
			rep.Violate("c02:panic-escaped", "mutation call panicked: "+t.Panic+" :: "+t.String(), t.Replay())
			return
		}
		if sc == nil {
			sc = t.Mach.Schema()
		}
		for _, tx := range t.Txs {
			rep.Add("evaluations", 1)
			vs, nt := checkTx(sc, t.Index, tx)
			if nt {
				rep.Add("nontrivial", 1)
				if label != "" {
					rep.Distinct("nontrivial_cases", label+"|"+kit.Key(t.Before)+"|"+t.Mut.String()+"|"+fmt.Sprint(tx.IsAuto))
				}
			}
			for _, v := range vs {
				rep.Violate(classify(sc, t.Index, tx, v), v.detail+" :: "+t.String(), t.Replay())
			}
		}
		// the step's own before/after must match the tracer chain (sanity of the harness)
		if len(t.Txs) > 0 {
			last := t.Txs[len(t.Txs)-1]
			if !slices.Equal(last.After, t.TimeAfter) && last.Accepted {
				// time after the step differs from last traced time: covered by C14; ignore here
				_ = last
			}
		}
	})
	rep.Add("states", int64(st))
	rep.Add("transitions", int64(tr))
	rep.Add("schemas", 1)
	if capped {
		rep.NotExhaustive("state cap hit for " + sp.String())
	}
}

func TestCheck(t *testing.T) {
	rep := kit.NewReport("C02")
	defer rep.Write()

	if kit.ReplayPath() != "" {
		var r kit.SeqReplay
		if err := kit.LoadReplay(&r); err != nil {
			t.Fatal(err)
		}
		replay(rep, r)
		return
	}

	shard, nshard := kit.Shard()

	// 1. exhaustive small spaces
	type spaceRun struct {
		name  string
		space *kit.Space
		both  bool
	}
	var spaces []spaceRun
	spaces = append(spaces,
		spaceRun{"n1", (&kit.Space{N: 1, Auto: true, Multi: true, Rels: 3}).Build(), false},
		spaceRun{"n2-full", (&kit.Space{N: 2, Auto: true, Multi: true, Rels: 3}).Build(), true},
	)
	if kit.Thorough() {
		spaces = append(spaces, spaceRun{"n3-full", (&kit.Space{N: 3, Auto: true, Multi: true, Rels: 3}).Build(), false})
	} else {
		spaces = append(spaces, spaceRun{"n3-max1target-noflags", (&kit.Space{N: 3, Rels: 3, MaxTargets: 1}).Build(), false})
		spaces = append(spaces, spaceRun{"n3-full-sampled-stride", (&kit.Space{N: 3, Auto: true, Multi: true, Rels: 3}).Build(), false})
	}
	for _, sr := range spaces {
		size := sr.space.Size()
		stride := int64(1)
		if sr.name == "n3-full-sampled-stride" {
			// quick tier: a fixed arithmetic progression through the full
			// 3-state space (declared non-exhaustive for that space)
			stride = 4099
		}
		var codes []int64
		for c := int64(shard) * stride; c < size; c += stride * int64(nshard) {
			codes = append(codes, c)
		}
		rep.Note("space:"+sr.name, fmt.Sprintf("size=%d stride=%d", size, stride))
		kit.Par(len(codes), func(i int) {
			if rep.OverBudget() {
				rep.NotExhaustive("budget")
				return
			}
			sp := sr.space.Decode(codes[i])
			runSpec(rep, sp, "", sr.both, 0)
		})
		if stride > 1 {
			rep.Note("space:"+sr.name+":exhaustive", false)
		}
	}

	// 2. parametric families, complete for n = 4..6
	maxN := 5
	if kit.Thorough() {
		maxN = 6
	}
	var fams []kit.Family
	for n := 3; n <= maxN; n++ {
		fams = append(fams, kit.Families(n)...)
	}
	kit.Par(len(fams), func(i int) {
		if i%nshard != shard {
			return
		}
		f := fams[i]
		runSpec(rep, f.Spec, f.Name, false, 4000)
		rep.Add("family_schemas", 1)
	})
	rep.Sample(3, map[string]any{"schema": fams[0].Spec.String(), "mutations": "add/remove/set over all non-empty subsets from every reachable active set"})
	rep.Sample(3, map[string]any{"schema": spaces[1].space.Decode(777).String()})
}

func replay(rep *kit.Report, r kit.SeqReplay) {
	m, tr := kit.NewMach(r.Spec, nil)
	for _, s := range r.Path {
		s.Apply(m)
	}
	tr.Reset()
	before := m.ActiveStates(nil)
	res := r.Mut.Apply(m)
	fmt.Printf("replay schema[%s] path=%v before=%v %s -> %v after=%v\n", r.Spec, r.Path, before, r.Mut, res, m.ActiveStates(nil))
	sc := m.Schema()
	for _, tx := range tr.Txs {
		rep.Add("evaluations", 1)
		vs, _ := checkTx(sc, m.StateNames(), tx)
		for _, v := range vs {
			fmt.Printf("  violation %s: %s\n", v.sig, v.detail)
			rep.Violate(classify(sc, m.StateNames(), tx, v), v.detail, r)
		}
	}
	rep.Add("states", 1)
	rep.Add("transitions", 1)
}
