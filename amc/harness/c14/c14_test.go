// C14 - tracers see every transition once, in order, with the true times.
//
// Explicit-state search: schemas x BFS over machine states x mutation kinds
// (incl. checks, canceled, auto, exception, nested mutations issued from
// handlers) with two independent recording tracers (one from Opts.Tracers, one
// bound with TracerBind) that observe the whole history from the empty machine.
package c14

import (
	"context"
	"fmt"
	"slices"
	"strings"
	"testing"
	"testing/synctest"

	"amc/kit"

	am "github.com/pancsta/asyncmachine-go/pkg/machine"
)

type cfg struct {
	Handlers bool   `json:"handlers"`
	Nested   string `json:"nested"` // "", "final", "neg"
	Veto     string `json:"veto"`   // handler name that vetoes, or ""
}

type replayT struct {
	kit.SeqReplay
	Cfg cfg `json:"cfg"`
}

// checkTracer checks one tracer's full record of a history.
func checkTracer(name string, tr *kit.RecTracer, m *am.Machine, nMutations int) (bad []string, sawCanceled, sawAuto bool) {
	f := func(format string, a ...any) { bad = append(bad, fmt.Sprintf("%s: ", name)+fmt.Sprintf(format, a...)) }
	// grammar on the raw callback sequence: (I S F? E)* per id, never interleaved
	i := 0
	raw := tr.Raw
	for i < len(raw) {
		id := raw[i][2:]
		seq := ""
		for i < len(raw) && raw[i][2:] == id {
			seq += raw[i][:1]
			i++
		}
		if seq != "ISE" && seq != "ISFE" {
			f("grammar: callbacks %q for one transition (raw %v)", seq, compact(raw))
		}
	}
	ids := map[string]bool{}
	for _, tx := range tr.Txs {
		if ids[tx.Id] {
			f("grammar: transition %s reported twice", tx.Id)
		}
		ids[tx.Id] = true
		hasF := strings.Contains(tx.Calls, "F")
		wantF := tx.Accepted && !tx.IsCheck
		if hasF != wantF {
			f("finals: TransitionFinals called=%v for accepted=%v check=%v (%s%v)", hasF, tx.Accepted, tx.IsCheck, tx.Type, tx.Called)
		}
		if !tx.Accepted {
			sawCanceled = true
			if !slices.Equal(tx.Before, tx.After) {
				f("canceled: canceled transition reports a change %v -> %v", tx.Before, tx.After)
			}
		}
		if tx.IsCheck && !slices.Equal(tx.Before, tx.After) {
			f("canceled: check transition reports a change %v -> %v", tx.Before, tx.After)
		}
		if tx.IsAuto {
			sawAuto = true
		}
		if tx.MachTimeAtEnd != nil && !slices.Equal(tx.After, tx.MachTimeAtEnd) {
			f("time: TimeAfter=%v but the machine's time at TransitionEnd is %v (%s%v accepted=%v)", tx.After, tx.MachTimeAtEnd, tx.Type, tx.Called, tx.Accepted)
		}
	}
	// chain
	zero := make(am.Time, len(m.StateNames()))
	prev := zero
	for k, tx := range tr.Txs {
		if !slices.Equal(tx.Before, prev) {
			f("chain: tx#%d TimeBefore=%v but the previous TimeAfter was %v", k, tx.Before, prev)
		}
		prev = tx.After
	}
	if len(tr.Txs) > 0 && !slices.Equal(prev, m.Time(nil)) {
		f("chain: last TimeAfter=%v but the machine's final time is %v", prev, m.Time(nil))
	}
	return
}

func compact(raw []string) []string {
	out := make([]string, len(raw))
	for i, r := range raw {
		out[i] = r[:1] + r[len(r)-3:]
	}
	return out
}

type world struct {
	rep *kit.Report
	d   *kit.Disposer
}

func runHistory(w *world, sp kit.Spec, hist []kit.Step, c cfg) (m *am.Machine, t1, t2 *kit.RecTracer, panicked string, processed int) {
	t1 = kit.NewRecTracer("opts")
	t2 = kit.NewRecTracer("bound")
	m = am.New(context.Background(), sp.Schema(), &am.Opts{Id: "m", Tracers: []am.Tracer{t1}})
	t1.Mach, t2.Mach = m, m
	if err := m.VerifyStates(append(slices.Clone(sp.StateNames()), am.StateException)); err != nil {
		panic(err)
	}
	if _, err := m.TracerBind(t2); err != nil {
		panic(err)
	}
	if c.Handlers {
		l := kit.NewHLog()
		l.Mach = m
		if c.Veto != "" {
			l.VetoNames[c.Veto] = true
		}
		nestedDone := false
		l.Hook = func(cl *kit.HCall, e *am.Event) {
			if nestedDone || c.Nested == "" {
				return
			}
			k := cl.Kind()
			if (c.Nested == "final" && k == "state") || (c.Nested == "neg" && k == "enter") {
				nestedDone = true
				// a mutation issued during a transition: queued, traced later
				other := sp.StateNames()[len(sp)-1]
				e.Machine().Toggle1(other, nil)
			}
		}
		l.BindAll(m, sp.StateNames(), "b0", "", nil)
		w.d.Track(m)
	}
	for _, s := range hist {
		_, p := kit.SafeApply(s, m)
		if p != "" {
			return m, t1, t2, p, processed
		}
		processed++
	}
	return
}

func exploreOne(w *world, sp kit.Spec, c cfg, maxStates int) {
	rep := w.rep
	if sp.HasReqRemConflict() {
		rep.Add("schemas_skipped_parse_conflict", 1)
		return
	}
	muts := kit.Mutations(sp, []string{"add", "remove", "set", "canadd", "canremove"}, false)
	muts = append(muts, kit.Step{Op: "adderr"})
	// BFS over ordered active lists, history = path + mutation, traced from the start
	seen := map[string]bool{"": true}
	frontier := [][]kit.Step{nil}
	states, transitions := 0, 0
	for len(frontier) > 0 {
		path := frontier[0]
		frontier = frontier[1:]
		states++
		for _, mu := range muts {
			hist := append(slices.Clone(path), mu)
			m, t1, t2, pan, _ := runHistory(w, sp, hist, c)
			transitions++
			rep.Add("evaluations", 1)
			rp := replayT{kit.SeqReplay{Spec: sp, Schema: sp.String(), Path: path, Mut: mu}, c}
			if pan != "" {
				rep.Violate("c14:panic-escaped", pan+fmt.Sprintf(" :: schema[%s] hist=%v cfg=%+v", sp, hist, c), rp)
				continue
			}
			b1, sc1, sa1 := checkTracer("opts-tracer", t1, m, len(hist))
			b2, _, _ := checkTracer("bound-tracer", t2, m, len(hist))
			// both tracers identical (the bound one joined before any mutation)
			if len(t1.Raw) != len(t2.Raw) {
				b1 = append(b1, fmt.Sprintf("both: tracers disagree on the number of callbacks %d vs %d", len(t1.Raw), len(t2.Raw)))
			} else {
				for i := range t1.Raw {
					if t1.Raw[i] != t2.Raw[i] {
						b1 = append(b1, fmt.Sprintf("both: tracers disagree at callback %d: %s vs %s", i, t1.Raw[i], t2.Raw[i]))
						break
					}
				}
			}
			if sc1 && sa1 || len(t1.Txs) > len(hist) {
				rep.Add("nontrivial", 1)
			}
			for _, b := range append(b1, b2...) {
				parts := strings.SplitN(b, ": ", 3)
				rep.Violate("c14:"+parts[1], fmt.Sprintf("%s :: schema[%s] hist=%v cfg=%+v", b, sp, hist, c), rp)
			}
			k := strings.Join(m.ActiveStates(nil), ",")
			if !seen[k] && (maxStates == 0 || len(seen) < maxStates) {
				seen[k] = true
				frontier = append(frontier, hist)
			}
			if w.d.Len() > 300 {
				w.d.DisposeAll()
			}
		}
	}
	rep.Add("states", int64(states))
	rep.Add("transitions", int64(transitions))
	rep.Add("schemas", 1)
	w.d.DisposeAll()
}

func TestCheck(t *testing.T) {
	rep := kit.NewReport("C14")
	defer rep.Write()
	if kit.ReplayPath() != "" {
		var r replayT
		if err := kit.LoadReplay(&r); err != nil {
			t.Fatal(err)
		}
		synctest.Test(t, func(t *testing.T) { replay(rep, r) })
		return
	}
	shard, nshard := kit.Shard()
	type job struct {
		sp kit.Spec
		c  cfg
	}
	var jobs []job
	n1 := (&kit.Space{N: 1, Auto: true, Multi: true, Rels: 3}).Build()
	n2 := (&kit.Space{N: 2, Auto: true, Multi: true, Rels: 3}).Build()
	n3 := (&kit.Space{N: 3, Auto: true, Multi: true, Rels: 3}).Build()
	cfgs := []cfg{{}, {Handlers: true}, {Handlers: true, Nested: "final"}, {Handlers: true, Nested: "neg"}, {Handlers: true, Veto: "AEnter"}, {Handlers: true, Veto: "BA"}}
	add := func(sp kit.Spec, which []cfg) {
		for _, c := range which {
			jobs = append(jobs, job{sp, c})
		}
	}
	for c := int64(0); c < n1.Size(); c++ {
		add(n1.Decode(c), cfgs)
	}
	s2h, s3 := int64(5), int64(16381)
	if kit.Thorough() {
		s2h, s3 = 1, 509
	}
	for c := int64(0); c < n2.Size(); c++ {
		add(n2.Decode(c), cfgs[:1])
		if c%s2h == 0 {
			add(n2.Decode(c), cfgs[1:])
		}
	}
	for c := int64(0); c < n3.Size(); c += s3 {
		add(n3.Decode(c), cfgs[:3])
	}
	for _, f := range kit.Families(3) {
		add(f.Spec, cfgs)
	}
	if kit.Thorough() {
		for _, f := range kit.Families(4) {
			add(f.Spec, cfgs)
		}
	}
	rep.Note("spaces", fmt.Sprintf("n1 full x6 cfgs; n2 full handler-less + stride %d with handler cfgs; n3 stride %d; families; jobs=%d", s2h, s3, len(jobs)))
	kit.Par(len(jobs), func(i int) {
		if i%nshard != shard {
			return
		}
		if rep.OverBudget() {
			rep.NotExhaustive("budget")
			return
		}
		synctest.Test(t, func(t *testing.T) {
			exploreOne(&world{rep, &kit.Disposer{}}, jobs[i].sp, jobs[i].c, 300)
		})
	})
	rep.Sample(4, map[string]any{"schema": jobs[len(jobs)/2].sp.String(), "cfg": jobs[len(jobs)/2].c, "history": "BFS path from the empty machine + one of add/remove/set/canadd/canremove over all subsets, AddErr; two tracers"})
}

func replay(rep *kit.Report, r replayT) {
	rep.Add("states", 1)
	rep.Add("transitions", 1)
	w := &world{rep, &kit.Disposer{}}
	hist := append(slices.Clone(r.Path), r.Mut)
	m, t1, t2, pan, _ := runHistory(w, r.Spec, hist, r.Cfg)
	fmt.Printf("replay schema[%s] hist=%v cfg=%+v\n", r.Spec, hist, r.Cfg)
	if pan != "" {
		rep.Violate("c14:panic-escaped", pan, r)
		return
	}
	for _, tx := range t1.Txs {
		fmt.Printf("  tx %s auto=%v check=%v accepted=%v %s%v %v -> %v (mach at end %v)\n", tx.Calls, tx.IsAuto, tx.IsCheck, tx.Accepted, tx.Type, tx.Called, tx.Before, tx.After, tx.MachTimeAtEnd)
	}
	b1, _, _ := checkTracer("opts-tracer", t1, m, len(hist))
	b2, _, _ := checkTracer("bound-tracer", t2, m, len(hist))
	for _, b := range append(b1, b2...) {
		fmt.Println("  violation:", b)
		parts := strings.SplitN(b, ": ", 3)
		rep.Violate("c14:"+parts[1], b, r)
	}
	w.d.DisposeAll()
}
