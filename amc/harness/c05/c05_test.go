// C05 - handler lifecycle: documented order, visibility and veto rules.
//
// Explicit-state search: schemas with After/Require graphs x BFS over machine
// states x mutations x veto position, with logging handlers bound for every
// handler name (one or two bindings); the recorded handler trace of every
// transition is checked against the documented phase order.
package c05

import (
	"fmt"
	"slices"
	"strings"
	"testing"
	"testing/synctest"
	"time"

	"amc/kit"

	am "github.com/pancsta/asyncmachine-go/pkg/machine"
)

type cfg struct {
	Bindings int `json:"bindings"` // 1 or 2
	VetoAt   int `json:"veto_at"`  // -1 none, else k-th negotiation call of the step
}

type replayT struct {
	kit.SeqReplay
	Cfg cfg `json:"cfg"`
}

var phaseRank = map[string]int{"exit": 0, "enter": 1, "self": 2, "pair": 2, "end": 4, "state": 5, "anystate": 6}

// checkTx checks the handler calls of one transition.
func checkTx(sc am.Schema, tx kit.TxRec, calls []kit.HCall, c cfg, index am.S) (bad []string, negCalls int) {
	f := func(format string, a ...any) { bad = append(bad, fmt.Sprintf(format, a...)) }
	names := kit.CallNames(calls)
	// 1. phase order (AnyEnter only has to be inside negotiation)
	lastRank, lastName := -1, ""
	firstFinal := -1
	for i, cl := range calls {
		k := cl.Kind()
		if !kit.IsNegotiation(k) && firstFinal < 0 {
			firstFinal = i
		}
		if k == "anyenter" {
			if firstFinal >= 0 {
				f("order: AnyEnter after a final handler: %v", names)
			}
			continue
		}
		r := phaseRank[k]
		if r < lastRank {
			f("order: %s (%s) ran after %s: %v", cl.Name, k, lastName, names)
		}
		if r > lastRank {
			lastRank, lastName = r, cl.Name
		}
	}
	// 2. After / Require precedence inside each list
	prec := map[string][]string{} // x -> states that must come before x
	for s, st := range sc {
		prec[s] = kit.Union(st.After, st.Require)
	}
	var all []string
	for s := range sc {
		all = append(all, s)
	}
	for _, kind := range []string{"exit", "enter", "end", "state"} {
		for _, b := range bindingsOf(calls) {
			var list []string
			for _, cl := range calls {
				if cl.Kind() == kind && cl.Binding == b {
					list = append(list, kit.HandlerState(cl.Name))
				}
			}
			for i, x := range list {
				for j, y := range list {
					if i == j || !kit.Has(prec[x], y) {
						continue
					}
					// weaker reading for cyclic precedence graphs: no demand on a
					// state that lies on a cycle (within this list)
					if kit.Reachable(prec, y, x, all) || kit.Reachable(prec, x, x, all) || kit.Reachable(prec, y, y, all) {
						continue
					}
					if j > i {
						// narrow signature of known finding C05-a: an After-only
						// pair that is not adjacent in the executed order
						tag := "precedence"
						// adjacency is judged in the list the machine sorted: the
						// whole target for enter/state, the exits for exit/end
						sorted := tx.Target
						if kind == "exit" || kind == "end" {
							sorted = tx.Exits
						}
						pi, pj := slices.Index(sorted, x), slices.Index(sorted, y)
						if kit.Has(sc[x].After, y) && !kit.Has(sc[x].Require, y) && pi >= 0 && pj-pi >= 2 {
							tag = "precedence-after-nonadjacent"
						}
						f("%s: %s lists %s in After/Require but its %s handler ran first: %v", tag, x, y, kind, list)
					}
				}
			}
		}
	}
	// 3. visibility
	before := tx.ActBefore
	var afterSet am.S
	for i, v := range tx.After {
		if v%2 == 1 {
			afterSet = append(afterSet, index[i])
		}
	}
	vetoed := false
	for i, cl := range calls {
		k := cl.Kind()
		if kit.IsNegotiation(k) {
			negCalls++
			if !kit.SameSet(cl.Active, before) {
				f("visibility: negotiation handler %s saw %v, machine was %v before", cl.Name, cl.Active, before)
			}
			if !slices.Equal(cl.Time, tx.Before) {
				f("visibility: negotiation handler %s saw time %v, before was %v", cl.Name, cl.Time, tx.Before)
			}
			if vetoed {
				f("veto: handler %s ran after a veto: %v", cl.Name, names)
			}
			if cl.Vetoed && !(tx.IsAuto && sc[kit.HandlerState(cl.Name)].Auto && k != "anyenter") {
				vetoed = true
				if i != len(calls)-1 {
					f("veto: %s vetoed at %d but %d more handlers ran: %v", cl.Name, i, len(calls)-1-i, names)
				}
			}
		} else {
			if tx.IsCheck {
				f("final handler %s ran for a check transition", cl.Name)
			}
			if !kit.SameSet(cl.Active, afterSet) {
				f("visibility: final handler %s saw %v, target applied is %v", cl.Name, cl.Active, afterSet)
			}
			if vetoed {
				f("veto: final handler %s ran after a veto", cl.Name)
			}
		}
	}
	// 4. veto => canceled, nothing applied
	if vetoed {
		if tx.Accepted {
			f("veto: transition accepted although %v vetoed", names)
		}
		if !slices.Equal(tx.Before, tx.After) {
			f("veto: time changed %v -> %v", tx.Before, tx.After)
		}
	}
	// 5. finals only when accepted, exactly once per changed state per binding
	if !tx.IsCheck {
		cnt := map[string]int{}
		for _, cl := range calls {
			if !kit.IsNegotiation(cl.Kind()) {
				cnt[cl.Binding+"/"+cl.Name]++
			}
		}
		if !tx.Accepted {
			for k := range cnt {
				f("finals: %s ran for a canceled transition", k)
			}
		} else {
			changedOn := kit.Diff(afterSet, before)
			changedOff := kit.Diff(before, afterSet)
			for b := 0; b < c.Bindings; b++ {
				bn := fmt.Sprintf("b%d", b)
				for _, s := range changedOn {
					if s == am.StateException {
						continue
					}
					if cnt[bn+"/"+s+"State"] != 1 {
						f("finals: %sState ran %d times for binding %s (activated), calls %v", s, cnt[bn+"/"+s+"State"], bn, names)
					}
				}
				for _, s := range changedOff {
					if s == am.StateException {
						continue
					}
					if cnt[bn+"/"+s+"End"] != 1 {
						f("finals: %sEnd ran %d times for binding %s (deactivated), calls %v", s, cnt[bn+"/"+s+"End"], bn, names)
					}
				}
				if cnt[bn+"/AnyState"] != 1 {
					f("finals: AnyState ran %d times for binding %s", cnt[bn+"/AnyState"], bn)
				}
			}
			for k, n := range cnt {
				name := k[strings.Index(k, "/")+1:]
				s := kit.HandlerState(name)
				if n > 1 {
					f("finals: %s ran %d times", k, n)
				}
				switch kit.HandlerKind(name) {
				case "state":
					// allowed for activated states and re-entered Multi states
					if !kit.Has(changedOn, s) && !(sc[s].Multi && kit.Has(tx.Called, s)) {
						f("finals: %s ran but %s was not activated", k, s)
					}
				case "end":
					if !kit.Has(changedOff, s) {
						f("finals: %s ran but %s was not deactivated", k, s)
					}
				}
			}
		}
	}
	return
}

func bindingsOf(calls []kit.HCall) []string {
	var out []string
	for _, c := range calls {
		if !kit.Has(out, c.Binding) {
			out = append(out, c.Binding)
		}
	}
	return out
}

type ctx struct {
	rep      *kit.Report
	machines []*am.Machine
}

func (x *ctx) disposeAll() {
	for _, m := range x.machines {
		m.Dispose()
	}
	for _, m := range x.machines {
		<-m.WhenDisposed()
	}
	if len(x.machines) > 0 {
		time.Sleep(10 * time.Second)
	}
	x.machines = nil
}

// exploreOne: BFS for one schema; for every transition first a fault-free run
// (cfg.VetoAt=-1), then one run per veto position.
func exploreOne(x *ctx, sp kit.Spec, bindings int, label string, maxStates int, vetoes bool) {
	rep := x.rep
	if sp.HasReqRemConflict() {
		rep.Add("schemas_skipped_parse_conflict", 1)
		return
	}
	muts := kit.Mutations(sp, []string{"add", "remove", "set"}, false)
	var curLog *kit.HLog
	mk := func(vetoAt int) func(m *am.Machine) {
		return func(m *am.Machine) {
			l := kit.NewHLog()
			l.Mach = m
			l.VetoAt = vetoAt
			for b := 0; b < bindings; b++ {
				l.BindAll(m, sp.StateNames(), fmt.Sprintf("b%d", b), "", nil)
			}
			curLog = l
			x.machines = append(x.machines, m)
		}
	}
	var sc am.Schema
	eval := func(t *kit.Trans, c cfg, l *kit.HLog) (negCalls int) {
		if t.Panic != "" {
			rep.Violate("c05:panic-escaped", fmt.Sprintf("mutation call panicked: %s :: cfg=%+v calls=%v %s", t.Panic, c, kit.CallNames(l.Calls), t), replayT{t.Replay(), c})
			return 0
		}
		if sc == nil {
			sc = t.Mach.Schema()
		}
		_, by := l.ByTx()
		seen := 0
		for _, tx := range t.Txs {
			calls := by[tx.Id]
			seen += len(calls)
			bad, nc := checkTx(sc, tx, calls, c, t.Index)
			negCalls += nc
			rep.Add("evaluations", 1)
			if len(calls) > 0 {
				rep.Add("nontrivial", 1)
			}
			for _, b := range bad {
				sig := "c05:" + b[:strings.Index(b, ":")]
				rep.Violate(sig, fmt.Sprintf("%s :: cfg=%+v tx{auto=%v %s%v accepted=%v} %s", b, c, tx.IsAuto, tx.Type, tx.Called, tx.Accepted, t), replayT{t.Replay(), c})
			}
		}
		if seen != len(l.Calls) {
			rep.Violate("c05:orphan", fmt.Sprintf("handler calls outside any traced transition: %v :: %s", kit.CallNames(l.Calls), t), replayT{t.Replay(), c})
		}
		return
	}
	st, tr, capped := kit.ExploreSpec(sp, muts, kit.ExploreOpts{Setup: mk(-1), MaxStates: maxStates,
		BeforeMut: func(m *am.Machine) { curLog.Reset() }}, func(t *kit.Trans) {
		c := cfg{Bindings: bindings, VetoAt: -1}
		neg := eval(t, c, curLog)
		if !vetoes {
			return
		}
		// every veto position of this step (counted over the first binding's
		// negotiation calls in the fault-free run)
		for k := 0; k < neg; k++ {
			m, trc := kit.NewMach(sp, mk(-1))
			l := curLog
			for _, s := range t.Path {
				s.Apply(m)
			}
			trc.Reset()
			l.Reset()
			l.VetoAt = k // armed for the explored step only
			t2 := &kit.Trans{Spec: sp, Path: t.Path, Mut: t.Mut, Mach: m, Index: m.StateNames()}
			t2.Before = m.ActiveStates(nil)
			t2.TimeBefore = m.Time(nil)
			t2.Result, t2.Panic = kit.SafeApply(t.Mut, m)
			if t2.Panic == "" {
				t2.After = m.ActiveStates(nil)
				t2.TimeAfter = m.Time(nil)
			}
			t2.Txs = trc.Txs
			rep.Add("veto_runs", 1)
			eval(t2, cfg{Bindings: bindings, VetoAt: k}, l)
		}
		if len(x.machines) > 200 {
			x.disposeAll()
		}
	})
	rep.Add("states", int64(st))
	rep.Add("transitions", int64(tr))
	rep.Add("schemas", 1)
	if capped {
		rep.NotExhaustive("state cap for " + sp.String())
	}
	x.disposeAll()
}

// afterReqSpace enumerates schemas over n states where After and Require vary
// over all subsets of the other states and Add/Remove over a small menu.
func afterReqSpecs(n int, menu bool) []kit.Spec {
	sp := (&kit.Space{N: n, Rels: 4}).Build()
	var out []kit.Spec
	for c := int64(0); c < sp.Size(); c++ {
		s := sp.Decode(c)
		ok := true
		for _, st := range s {
			if !menu && (st.Add != 0 || st.Remove != 0) {
				ok = false
			}
		}
		if ok {
			out = append(out, s)
		}
	}
	return out
}

func TestCheck(t *testing.T) {
	rep := kit.NewReport("C05")
	defer rep.Write()
	if kit.ReplayPath() != "" {
		var r replayT
		if err := kit.LoadReplay(&r); err != nil {
			t.Fatal(err)
		}
		synctest.Test(t, func(t *testing.T) { replay(rep, r) })
		return
	}
	shard, nshard := kit.Shard()
	type job struct {
		sp       kit.Spec
		bindings int
		label    string
		vetoes   bool
	}
	var jobs []job
	// 2 states: everything (flags, 4 relations)
	n2 := (&kit.Space{N: 2, Auto: true, Multi: true, Rels: 4}).Build()
	for c := int64(0); c < n2.Size(); c++ {
		jobs = append(jobs, job{n2.Decode(c), 1, "", true})
	}
	// 3 states: After x Require graphs (no Add/Remove): 16^3 = 4096 schemas
	ar3 := (&kit.Space{N: 3, Rels: 4}).Build()
	stride3 := int64(1)
	n3count := 0
	for c := int64(0); c < ar3.Size(); c += stride3 {
		s := ar3.Decode(c)
		skip := false
		for _, st := range s {
			if st.Add != 0 || st.Remove != 0 {
				skip = true
			}
		}
		if skip {
			continue
		}
		n3count++
		if !kit.Thorough() && n3count%4 != 0 {
			continue
		}
		jobs = append(jobs, job{s, 1, "", kit.Thorough() || n3count%16 == 0})
	}
	// 4 states: After alone, all 4096 graphs (thorough) / every 8th (quick)
	for g := 0; g < 4096; g++ {
		if !kit.Thorough() && g%8 != 5 {
			continue
		}
		sp := make(kit.Spec, 4)
		for i := 0; i < 4; i++ {
			m := uint8(g>>(3*i)) & 7
			// spread 3 bits over the other states
			slot := 0
			for j := 0; j < 4; j++ {
				if j == i {
					continue
				}
				if m&(1<<slot) != 0 {
					sp[i].After |= 1 << j
				}
				slot++
			}
		}
		jobs = append(jobs, job{sp, 1, "after4", false})
	}
	// two bindings on the families
	for _, f := range kit.Families(3) {
		jobs = append(jobs, job{f.Spec, 2, f.Name, true})
	}
	rep.Note("jobs", len(jobs))
	kit.Par(len(jobs), func(i int) {
		if i%nshard != shard {
			return
		}
		if rep.OverBudget() {
			rep.NotExhaustive("budget")
			return
		}
		j := jobs[i]
		synctest.Test(t, func(t *testing.T) {
			exploreOne(&ctx{rep: rep}, j.sp, j.bindings, j.label, 600, j.vetoes)
		})
	})
	rep.Sample(4, map[string]any{"schema": jobs[len(jobs)/2].sp.String(), "handlers": "logging handlers for every Exit/Enter/self/pair/AnyEnter/End/State/AnyState name", "veto": "each negotiation call position"})
	rep.Sample(4, map[string]any{"schema": jobs[len(jobs)-1].sp.String(), "bindings": 2})
}

func replay(rep *kit.Report, r replayT) {
	var l *kit.HLog
	m, trc := kit.NewMach(r.Spec, func(m *am.Machine) {
		l = kit.NewHLog()
		l.Mach = m
		l.VetoAt = r.Cfg.VetoAt
		for b := 0; b < r.Cfg.Bindings; b++ {
			l.BindAll(m, r.Spec.StateNames(), fmt.Sprintf("b%d", b), "", nil)
		}
	})
	l.VetoAt = -1
	for _, s := range r.Path {
		s.Apply(m)
	}
	trc.Reset()
	l.Reset()
	l.VetoAt = r.Cfg.VetoAt
	before := m.ActiveStates(nil)
	res, pan := kit.SafeApply(r.Mut, m)
	if pan != "" {
		fmt.Println("  mutation call panicked:", pan)
		rep.Violate("c05:panic-escaped", pan, r)
		rep.Add("states", 1)
		rep.Add("transitions", 1)
		return
	}
	fmt.Printf("replay cfg=%+v schema[%s] path=%v before=%v %s -> %v after=%v\n", r.Cfg, r.Spec, r.Path, before, r.Mut, res, m.ActiveStates(nil))
	_, by := l.ByTx()
	sc := m.Schema()
	for _, tx := range trc.Txs {
		calls := by[tx.Id]
		fmt.Printf("  tx auto=%v %s%v accepted=%v enters=%v exits=%v calls=%v\n", tx.IsAuto, tx.Type, tx.Called, tx.Accepted, tx.Enters, tx.Exits, kit.CallNames(calls))
		bad, _ := checkTx(sc, tx, calls, r.Cfg, m.StateNames())
		for _, b := range bad {
			fmt.Println("  violation:", b)
			rep.Violate("c05:"+b[:strings.Index(b, ":")], b, r)
		}
	}
	rep.Add("states", 1)
	rep.Add("transitions", 1)
	m.Dispose()
	<-m.WhenDisposed()
	time.Sleep(10 * time.Second)
}
