// C03 - transitions are all-or-nothing and the returned Result tells the truth.
//
// Explicit-state search over real machines with logging handlers: for every
// transition of the enumerated schema spaces and every subset V (|V| bounded)
// of the negotiation handlers its fault-free run calls, the mutation is
// re-executed with exactly V vetoing; plus Can* twins and early-return
// scenarios (disposed, backoff, queue limit).
package c03

import (
	"context"
	"errors"
	"fmt"
	"slices"
	"strings"
	"testing"
	"testing/synctest"
	"time"

	"amc/kit"

	am "github.com/pancsta/asyncmachine-go/pkg/machine"
)

type cfg struct {
	Veto   []string `json:"veto"`
	CanOp  string   `json:"can_op,omitempty"`
	Scene  string   `json:"scene,omitempty"`
	NoBind bool     `json:"nobind,omitempty"`
}

type replayT struct {
	kit.SeqReplay
	Cfg cfg `json:"cfg"`
}

func setupWith(sp kit.Spec, c cfg, d *kit.Disposer, logOut **kit.HLog) func(m *am.Machine) {
	return func(m *am.Machine) {
		l := kit.NewHLog()
		l.Mach = m
		if !c.NoBind {
			l.BindAll(m, sp.StateNames(), "b0", "", nil)
			d.Track(m)
		}
		*logOut = l
	}
}

// checkStep: oracle for one mutation on an idle machine.
func checkStep(t *kit.Trans, sc am.Schema, c cfg) (bad []string) {
	f := func(format string, a ...any) { bad = append(bad, fmt.Sprintf(format, a...)) }
	if t.Panic != "" {
		f("panic-escaped: %s", t.Panic)
		return
	}
	if t.Result >= am.Queued {
		f("result: mutation on an idle machine returned a queue tick (%d)", t.Result)
		return
	}
	C := t.Mut.Called
	// the called mutation's own transition is the first traced non-auto one
	var own *kit.TxRec
	for i := range t.Txs {
		if !t.Txs[i].IsAuto {
			own = &t.Txs[i]
			break
		}
	}
	if t.Result == am.Canceled {
		if !slices.Equal(t.TimeBefore, t.TimeAfter) || !kit.SameSet(t.Before, t.After) {
			f("atomicity: Canceled but state changed %v%v -> %v%v", t.Before, t.TimeBefore, t.After, t.TimeAfter)
		}
		return
	}
	// Executed
	if own == nil {
		// duplicate-detection / no-op shortcuts return Executed without a
		// transition: then the claim must already hold
		own = &kit.TxRec{After: t.TimeAfter, Before: t.TimeBefore, Accepted: true, Target: t.After}
	}
	T := kit.ActiveOf(t.Index, own.After)
	switch t.Mut.Op {
	case "add":
		if !kit.Subset(C, T) {
			f("result: Add%v returned Executed but active set after the transition is %v", C, T)
		}
	case "remove":
		if len(kit.Inter(C, T)) > 0 {
			f("result: Remove%v returned Executed but %v still active (%v)", C, kit.Inter(C, T), T)
		}
	case "set":
		if !kit.SameSet(own.Target, T) {
			f("result: Set%v Executed but active set %v != resolved target %v", C, T, own.Target)
		}
	}
	if !own.Accepted {
		f("result: Executed returned for a transition that was not accepted")
	}
	return
}

type world struct {
	rep *kit.Report
	d   *kit.Disposer
}

func vetoSubsets(neg []string, maxAll, maxK int) [][]string {
	neg = kit.Sorted(neg)
	if len(neg) <= maxAll {
		return kit.Subsets(neg)[1:]
	}
	var out [][]string
	for i := range neg {
		out = append(out, []string{neg[i]})
	}
	if maxK >= 2 {
		for i := range neg {
			for j := i + 1; j < len(neg); j++ {
				out = append(out, []string{neg[i], neg[j]})
			}
		}
	}
	return out
}

func exploreOne(w *world, sp kit.Spec, maxStates int, maxAll, maxK int, cans bool) {
	rep := w.rep
	if sp.HasReqRemConflict() {
		rep.Add("schemas_skipped_parse_conflict", 1)
		return
	}
	muts := kit.Mutations(sp, []string{"add", "remove", "set"}, false)
	var log *kit.HLog
	base := cfg{}
	var sc am.Schema
	report := func(t *kit.Trans, c cfg, bad []string) {
		for _, b := range bad {
			rep.Violate("c03:"+b[:strings.Index(b, ":")], fmt.Sprintf("%s :: cfg=%+v %s", b, c, t), replayT{t.Replay(), c})
		}
	}
	st, tr, capped := kit.ExploreSpec(sp, muts, kit.ExploreOpts{Setup: setupWith(sp, base, w.d, &log), MaxStates: maxStates,
		BeforeMut: func(m *am.Machine) { log.Reset() }}, func(t *kit.Trans) {
		if sc == nil {
			sc = t.Mach.Schema()
		}
		rep.Add("evaluations", 1)
		report(t, base, checkStep(t, sc, base))
		// negotiation handlers called by the fault-free run
		var neg []string
		for _, cl := range log.Calls {
			if kit.IsNegotiation(cl.Kind()) && !kit.Has(neg, cl.Name) {
				neg = append(neg, cl.Name)
			}
		}
		for _, V := range vetoSubsets(neg, maxAll, maxK) {
			c := cfg{Veto: V}
			var l2 *kit.HLog
			t2 := kit.RunStep(sp, t.Path, t.Mut, setupWith(sp, c, w.d, &l2), func(m *am.Machine) {
				l2.Reset()
				for _, n := range V {
					l2.VetoNames[n] = true
				}
			})
			rep.Add("evaluations", 1)
			rep.Add("veto_runs", 1)
			vetoRan := false
			for _, cl := range l2.Calls {
				if cl.Vetoed {
					vetoRan = true
				}
			}
			if vetoRan {
				rep.Add("nontrivial", 1)
			}
			report(t2, c, checkStep(t2, sc, c))
		}
		// Can* : nothing moves; differential against the twin's real mutation
		if cans && t.Mut.Op != "set" {
			op := map[string]string{"add": "canadd", "remove": "canremove"}[t.Mut.Op]
			c := cfg{CanOp: op}
			var l3 *kit.HLog
			var qt, ql uint64
			t3 := kit.RunStep(sp, t.Path, kit.Step{Op: op, Called: t.Mut.Called}, setupWith(sp, c, w.d, &l3), func(m *am.Machine) {
				qt, ql = m.QueueTick(), uint64(m.QueueLen())
			})
			rep.Add("evaluations", 1)
			var bad []string
			if t3.Panic != "" {
				bad = append(bad, "panic-escaped: "+t3.Panic)
			} else {
				if !slices.Equal(t3.TimeBefore, t3.TimeAfter) || !kit.SameSet(t3.Before, t3.After) {
					bad = append(bad, fmt.Sprintf("can: %s changed state %v -> %v", op, t3.TimeBefore, t3.TimeAfter))
				}
				if t3.Mach.QueueTick() != qt || uint64(t3.Mach.QueueLen()) != ql {
					bad = append(bad, fmt.Sprintf("can: %s changed queue tick/len %d/%d -> %d/%d", op, qt, ql, t3.Mach.QueueTick(), t3.Mach.QueueLen()))
				}
				multi := false
				for _, s := range t.Mut.Called {
					if sc[s].Multi {
						multi = true
					}
				}
				if !multi && t3.Result != t.Result {
					bad = append(bad, fmt.Sprintf("can-differential: %s%v answered %v but the same mutation issued next returned %v", op, t.Mut.Called, t3.Result, t.Result))
				}
			}
			report(t3, c, bad)
		}
		if w.d.Len() > 300 {
			w.d.DisposeAll()
		}
	})
	rep.Add("states", int64(st))
	rep.Add("transitions", int64(tr))
	rep.Add("schemas", 1)
	if capped {
		rep.NotExhaustive("state cap for " + sp.String())
	}
	w.d.DisposeAll()
}

// ---- early-return scenarios ----

func scenes(rep *kit.Report) {
	unchanged := func(name string, m *am.Machine, before am.Time, res am.Result, what string) {
		rep.Add("evaluations", 1)
		rep.Add("scene_checks", 1)
		if res != am.Canceled {
			rep.Violate("c03:scene-"+name, fmt.Sprintf("%s returned %v, want Canceled", what, res), replayT{Cfg: cfg{Scene: name}})
		}
		if now := m.Time(nil); len(now) > 0 && !slices.Equal(now, before) {
			rep.Violate("c03:scene-"+name, fmt.Sprintf("%s changed time %v -> %v", what, before, now), replayT{Cfg: cfg{Scene: name}})
		}
	}
	sc := am.Schema{"A": {}, "B": {}, "C": {Multi: true}}
	// disposed machine
	{
		m := am.New(context.Background(), sc, nil)
		m.Add1("A", nil)
		before := m.Time(nil)
		m.Dispose()
		<-m.WhenDisposed()
		for _, s := range []kit.Step{{Op: "add", Called: am.S{"B"}}, {Op: "remove", Called: am.S{"A"}}, {Op: "set", Called: am.S{"B"}}, {Op: "canadd", Called: am.S{"B"}}, {Op: "canremove", Called: am.S{"A"}}, {Op: "adderr"}} {
			res, p := kit.SafeApply(s, m)
			if p != "" {
				rep.Violate("c03:scene-disposed", "panic: "+p, replayT{Cfg: cfg{Scene: "disposed"}})
				continue
			}
			rep.Add("evaluations", 1)
			rep.Add("scene_checks", 1)
			if res != am.Canceled {
				rep.Violate("c03:scene-disposed", fmt.Sprintf("%s on a disposed machine returned %v", s, res), replayT{Cfg: cfg{Scene: "disposed"}})
			}
		}
		_ = before
		time.Sleep(5 * time.Second)
	}
	// backing-off machine: a handler that outlives HandlerDeadline
	{
		m := am.New(context.Background(), sc, &am.Opts{HandlerTimeout: 50 * time.Millisecond, HandlerDeadline: 200 * time.Millisecond, HandlerBackoff: 5 * time.Second})
		release := make(chan struct{})
		m.HandlersBindMaps(nil, map[string]am.HandlerFinal{"AState": func(e *am.Event) { <-release }})
		m.Add1("A", nil) // stalls past the deadline -> backoff starts
		if !m.Backoff() {
			rep.Note("scene-backoff", "backoff not entered (HandlerDeadline option not honoured?) - scenario skipped")
		} else {
			before := m.Time(nil)
			for _, s := range []kit.Step{{Op: "add", Called: am.S{"B"}}, {Op: "remove", Called: am.S{"A"}}, {Op: "canadd", Called: am.S{"B"}}, {Op: "canremove", Called: am.S{"A"}}, {Op: "adderr"}} {
				res, p := kit.SafeApply(s, m)
				if p != "" {
					rep.Violate("c03:scene-backoff", "panic: "+p, replayT{Cfg: cfg{Scene: "backoff"}})
					continue
				}
				unchanged("backoff", m, before, res, s.String()+" during backoff")
			}
		}
		close(release)
		time.Sleep(10 * time.Second)
		m.Dispose()
		<-m.WhenDisposed()
		time.Sleep(5 * time.Second)
	}
	// queue limit reached from inside a handler
	{
		m := am.New(context.Background(), sc, &am.Opts{QueueLimit: 2})
		var got []am.Result
		var gotErr am.Result
		m.HandlersBindMaps(nil, map[string]am.HandlerFinal{"AState": func(e *am.Event) {
			mm := e.Machine()
			got = append(got, mm.Add1("B", nil))          // queued (len 1)
			got = append(got, mm.Add1("C", am.A{"x": 1})) // queued (len 2)
			got = append(got, mm.Add1("C", am.A{"x": 2})) // beyond the limit
			got = append(got, mm.Remove1("A", nil))       // beyond the limit
			got = append(got, mm.Set(am.S{"B"}, nil))     // beyond the limit
			gotErr = mm.AddErr(errors.New("boom"), nil)   // the carve-out: may pass or not
		}})
		m.Add1("A", nil)
		rep.Add("evaluations", 1)
		rep.Add("scene_checks", 1)
		if len(got) == 5 {
			for i := 2; i < 5; i++ {
				if got[i] != am.Canceled {
					rep.Violate("c03:scene-queuelimit", fmt.Sprintf("mutation #%d beyond QueueLimit returned %v (results %v, AddErr %v)", i, got[i], got, gotErr), replayT{Cfg: cfg{Scene: "queuelimit"}})
				}
			}
			// effects: A, B active, C ticked once (one accepted Add1(C)), nothing from the rejected ones
			if !m.Is(am.S{"A", "B", "C"}) || m.Tick("C") != 1 {
				rep.Violate("c03:scene-queuelimit", fmt.Sprintf("unexpected end state %s (results %v)", m.StringAll(), got), replayT{Cfg: cfg{Scene: "queuelimit"}})
			}
		} else {
			rep.HarnessError("queue-limit scene: handler did not run (%v)", got)
		}
		m.Dispose()
		<-m.WhenDisposed()
		time.Sleep(5 * time.Second)
	}
}

func TestCheck(t *testing.T) {
	rep := kit.NewReport("C03")
	defer rep.Write()
	if kit.ReplayPath() != "" {
		var r replayT
		if err := kit.LoadReplay(&r); err != nil {
			t.Fatal(err)
		}
		synctest.Test(t, func(t *testing.T) { replay(rep, r) })
		return
	}
	shard, nshard := kit.Shard()
	var jobs []kit.Spec
	n1 := (&kit.Space{N: 1, Auto: true, Multi: true, Rels: 3}).Build()
	n2 := (&kit.Space{N: 2, Auto: true, Multi: true, Rels: 3}).Build()
	n3 := (&kit.Space{N: 3, Auto: true, Multi: true, Rels: 3}).Build()
	for c := int64(0); c < n1.Size(); c++ {
		jobs = append(jobs, n1.Decode(c))
	}
	s2, s3 := int64(3), int64(16381)
	if kit.Thorough() {
		s2, s3 = 1, 1021
	}
	for c := int64(0); c < n2.Size(); c += s2 {
		jobs = append(jobs, n2.Decode(c))
	}
	for c := int64(0); c < n3.Size(); c += s3 {
		jobs = append(jobs, n3.Decode(c))
	}
	for _, f := range kit.Families(3) {
		jobs = append(jobs, f.Spec)
	}
	if kit.Thorough() {
		for _, f := range kit.Families(4) {
			jobs = append(jobs, f.Spec)
		}
	}
	rep.Note("spaces", fmt.Sprintf("n1 full, n2 stride %d, n3 stride %d, families; jobs=%d", s2, s3, len(jobs)))
	maxAll, maxK := 4, 2
	if kit.Thorough() {
		maxAll, maxK = 7, 2
	}
	kit.Par(len(jobs), func(i int) {
		if i%nshard != shard {
			return
		}
		if rep.OverBudget() {
			rep.NotExhaustive("budget")
			return
		}
		synctest.Test(t, func(t *testing.T) {
			exploreOne(&world{rep, &kit.Disposer{}}, jobs[i], 400, maxAll, maxK, true)
		})
	})
	if shard == 0 {
		synctest.Test(t, func(t *testing.T) { scenes(rep) })
	}
	rep.Sample(4, map[string]any{"schema": jobs[len(jobs)/3].String(), "veto_subsets": "all subsets of the called negotiation handlers when <= maxAll, else singles and pairs"})
	rep.Sample(4, map[string]any{"scene": "disposed / backoff / queue limit from inside a handler"})
}

func replay(rep *kit.Report, r replayT) {
	rep.Add("states", 1)
	rep.Add("transitions", 1)
	if r.Cfg.Scene != "" {
		scenes(rep)
		return
	}
	d := &kit.Disposer{}
	var l *kit.HLog
	mut := r.Mut
	if r.Cfg.CanOp != "" {
		mut = kit.Step{Op: r.Cfg.CanOp, Called: r.Mut.Called}
	}
	t := kit.RunStep(r.Spec, r.Path, mut, setupWith(r.Spec, r.Cfg, d, &l), func(m *am.Machine) {
		l.Reset()
		for _, n := range r.Cfg.Veto {
			l.VetoNames[n] = true
		}
	})
	fmt.Printf("replay cfg=%+v %s\n  time %v -> %v calls=%v\n", r.Cfg, t, t.TimeBefore, t.TimeAfter, kit.CallNames(l.Calls))
	for _, tx := range t.Txs {
		fmt.Printf("  tx auto=%v %s%v accepted=%v target=%v %v -> %v\n", tx.IsAuto, tx.Type, tx.Called, tx.Accepted, tx.Target, tx.Before, tx.After)
	}
	var bad []string
	if r.Cfg.CanOp == "" {
		bad = checkStep(t, t.Mach.Schema(), r.Cfg)
	} else {
		t0 := kit.RunStep(r.Spec, r.Path, r.Mut, setupWith(r.Spec, cfg{}, d, &l), nil)
		if !slices.Equal(t.TimeBefore, t.TimeAfter) {
			bad = append(bad, "can: changed state")
		}
		if t.Result != t0.Result {
			bad = append(bad, fmt.Sprintf("can-differential: %s answered %v, the mutation returned %v", mut, t.Result, t0.Result))
		}
	}
	for _, b := range bad {
		fmt.Println("  violation:", b)
		rep.Violate("c03:"+b[:strings.Index(b, ":")], b, r)
	}
	d.DisposeAll()
}
