// C14 (multi-goroutine half) - with mutations issued from several goroutines a
// tracer still sees Init/Start/[Finals]/End of one transition contiguously,
// never interleaved with another transition of the same machine, and the
// before/after chain holds. SCHED: all schedules with <= bound deviations.
package c14s

import (
	"context"
	"fmt"
	"os"
	"slices"
	"strings"
	"testing"
	"time"

	"amc/kit"
	sk "amc/schedkit"

	am "github.com/pancsta/asyncmachine-go/pkg/machine"
)

func check(name string, tr *kit.RecTracer, m *am.Machine, r *sk.Run) {
	raw := tr.Raw
	for i := 0; i < len(raw); {
		id := raw[i][2:]
		seq := ""
		for i < len(raw) && raw[i][2:] == id {
			seq += raw[i][:1]
			i++
		}
		if seq != "ISE" && seq != "ISFE" {
			r.Violate("interleaved", "%s: callbacks %q for one transition (not contiguous / incomplete)", name, seq)
		}
	}
	prev := make(am.Time, len(m.StateNames()))
	for k, tx := range tr.Txs {
		if !slices.Equal(tx.Before, prev) {
			r.Violate("chain", "%s: tx#%d TimeBefore=%v, previous TimeAfter=%v", name, k, tx.Before, prev)
		}
		if tx.MachTimeAtEnd != nil && !slices.Equal(tx.After, tx.MachTimeAtEnd) {
			r.Violate("time", "%s: tx#%d TimeAfter=%v but machine time at End %v", name, k, tx.After, tx.MachTimeAtEnd)
		}
		prev = tx.After
	}
	if len(tr.Txs) > 0 && !slices.Equal(prev, m.Time(nil)) {
		r.Violate("chain", "%s: last TimeAfter=%v, final machine time %v", name, prev, m.Time(nil))
	}
}

func mk(name string, bound map[string]int, schema am.Schema, threads [][]kit.Step, handlers bool) *sk.Driver {
	var m *am.Machine
	var t1, t2 *kit.RecTracer
	return &sk.Driver{Name: name, Bound: bound,
		Body: func(r *sk.Run) {
			t1, t2 = kit.NewRecTracer("opts"), kit.NewRecTracer("bound")
			m = am.New(context.Background(), schema, &am.Opts{Id: "m", Tracers: []am.Tracer{t1}})
			t1.Mach, t2.Mach = m, m
			if err := m.VerifyStates(am.S{"A", "B", "C", am.StateException}); err != nil {
				panic(err)
			}
			m.TracerBind(t2)
			if handlers {
				m.HandlersBindMaps(nil, map[string]am.HandlerFinal{"AState": func(e *am.Event) { e.Machine().Add1("C", nil) }})
			}
			var joins []func()
			for i, seq := range threads {
				seq := seq
				joins = append(joins, sk.Go(fmt.Sprintf("t%d", i+1), func() {
					for _, s := range seq {
						s.Apply(m)
					}
				}))
			}
			for _, j := range joins {
				j()
			}
		},
		Cleanup: func(r *sk.Run) {
			if r.S.Deadlock {
				r.Violate("deadlock", "deadlock")
			}
			if r.Wedged() {
				return
			}
			check("opts-tracer", t1, m, r)
			check("bound-tracer", t2, m, r)
			if len(t1.Raw) != len(t2.Raw) {
				r.Violate("both", "tracers saw %d vs %d callbacks", len(t1.Raw), len(t2.Raw))
			}
			r.Observe("n=%d end=%s", len(t1.Txs), m.StringAll())
			m.Dispose()
			<-m.WhenDisposed()
			time.Sleep(time.Minute)
		},
	}
}

func TestCheck(t *testing.T) {
	sk.Init("C14")
	rep := kit.NewReport("C14")
	defer rep.Write()
	defer sk.Finish(rep)
	b := func(q, t int) map[string]int { return map[string]int{"quick": q, "thorough": t} }
	S := func(op string, st ...string) kit.Step { return kit.Step{Op: op, Called: st} }
	sc := am.Schema{"A": {}, "B": {Auto: true, Require: am.S{"A"}}, "C": {}}
	ds := []*sk.Driver{
		mk("add|add", b(3, 4), sc, [][]kit.Step{{S("add", "A")}, {S("add", "C")}}, false),
		mk("add,remove|set", b(2, 3), sc, [][]kit.Step{{S("add", "A"), S("remove", "A")}, {S("set", "C")}}, false),
		mk("handler-nested|add", b(2, 3), sc, [][]kit.Step{{S("add", "A")}, {S("canadd", "C"), S("add", "B")}}, true),
	}
	if kit.ReplayPath() != "" {
		var rp sk.Replay
		if err := kit.LoadReplay(&rp); err != nil {
			t.Fatal(err)
		}
		for _, d := range ds {
			if d.Name == rp.Driver {
				sk.ReplayDriver(t, rep, d, rp, "c14s:")
			}
		}
		return
	}
	only := os.Getenv("AMC_DRIVER")
	for _, d := range ds {
		if only != "" && !strings.HasPrefix(d.Name, only) {
			continue
		}
		if rep.OverBudget() {
			rep.NotExhaustive("budget: driver " + d.Name + " not started")
			continue
		}
		sk.ExploreDriver(t, rep, d, "c14s:")
	}
	rep.Sample(2, map[string]any{"driver": ds[0].Name, "threads": "Add1(A) || Add1(C), two tracers"})
}
