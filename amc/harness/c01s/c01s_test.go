// C01 (concurrent half) - readers racing with mutating goroutines never see a
// view that disagrees with itself, and ticks never go backwards.
//
// SCHED: mutator threads + one reader thread that calls single-lock views
// (StringAll, String, Inspect, Export, Time, Clock+nothing else) at every step;
// all schedules with <= bound deviations.
package c01s

import (
	"context"
	"fmt"
	"os"
	"strings"
	"testing"
	"time"

	"amc/kit"
	sk "amc/schedkit"

	am "github.com/pancsta/asyncmachine-go/pkg/machine"
)

type world struct {
	m    *am.Machine
	r    *sk.Run
	last am.Time
}

func (w *world) read(view string) {
	m := w.m
	switch view {
	case "StringAll":
		for _, b := range kit.SingleViewParity(m.StringAll()) {
			w.r.Violate("view-parity", "StringAll: %s", b)
		}
	case "String":
		s := m.String()
		if act, _, ok := kit.ParseStringAll(s + " []"); ok {
			for st, v := range act {
				if v%2 != 1 {
					w.r.Violate("view-parity", "String()=%q lists %s active with even tick %d", s, st, v)
				}
			}
		}
	case "Inspect":
		for st, x := range kit.ParseInspect(m.Inspect(nil)) {
			if (x[0] == 1) != (x[1]%2 == 1) {
				w.r.Violate("view-parity", "Inspect: %s active=%d tick=%d", st, x[0], x[1])
			}
		}
	case "Export":
		if ser, _, err := m.Export(); err == nil {
			w.mono(ser.Time, "Export")
		}
	case "Time":
		w.mono(m.Time(nil), "Time")
	case "Clock":
		cl := m.Clock(nil)
		t := make(am.Time, len(m.StateNames()))
		for i, s := range m.StateNames() {
			t[i] = cl[s]
		}
		w.mono(t, "Clock")
	}
}

func (w *world) mono(t am.Time, view string) {
	for i := range t {
		if i < len(w.last) && t[i] < w.last[i] {
			w.r.Violate("tick-decreased", "%s: tick %d went %d -> %d", view, i, w.last[i], t[i])
		}
	}
	w.last = t
}

type def struct {
	name   string
	schema am.Schema
	muts   [][]func(m *am.Machine)
	views  []string
	bound  map[string]int
	verify am.S
}

func mk(d def) *sk.Driver {
	var w *world
	return &sk.Driver{Name: d.name, Bound: d.bound,
		Body: func(r *sk.Run) {
			w = &world{r: r}
			w.m = am.New(context.Background(), d.schema, &am.Opts{Id: "m"})
			if err := w.m.VerifyStates(d.verify); err != nil {
				panic(err)
			}
			var joins []func()
			for i, seq := range d.muts {
				seq := seq
				joins = append(joins, sk.Go(fmt.Sprintf("m%d", i+1), func() {
					for _, f := range seq {
						f(w.m)
					}
				}))
			}
			joins = append(joins, sk.Go("reader", func() {
				for _, v := range d.views {
					w.read(v)
				}
			}))
			for _, j := range joins {
				j()
			}
		},
		Cleanup: func(r *sk.Run) {
			if r.S.Deadlock {
				r.Violate("deadlock", "deadlock")
			}
			if r.Wedged() {
				return
			}
			for _, b := range kit.CheckViews(w.m) {
				r.Violate("views-disagree", "%s", b)
			}
			r.Observe("end=%s", w.m.StringAll())
			w.m.Dispose()
			<-w.m.WhenDisposed()
			time.Sleep(time.Minute)
		},
	}
}

func drivers() []*sk.Driver {
	b := func(q, t int) map[string]int { return map[string]int{"quick": q, "thorough": t} }
	names := am.S{"A", "B", "C", am.StateException}
	plain := am.Schema{"A": {}, "B": {Multi: true}, "C": {Remove: am.S{"A"}}}
	add := func(s ...string) func(m *am.Machine) { return func(m *am.Machine) { m.Add(am.S(s), nil) } }
	rem := func(s ...string) func(m *am.Machine) { return func(m *am.Machine) { m.Remove(am.S(s), nil) } }
	return []*sk.Driver{
		mk(def{name: "toggle|read-strings", schema: plain, verify: names, bound: b(3, 4),
			muts:  [][]func(*am.Machine){{add("A"), rem("A")}},
			views: []string{"String", "StringAll", "String", "Inspect"}}),
		mk(def{name: "toggle|read-times", schema: plain, verify: names, bound: b(3, 4),
			muts:  [][]func(*am.Machine){{add("A", "B"), add("B"), rem("A")}},
			views: []string{"Time", "Export", "Clock", "Time"}}),
		mk(def{name: "two-mutators|read", schema: plain, verify: names, bound: b(2, 3),
			muts:  [][]func(*am.Machine){{add("A"), add("C")}, {add("B"), rem("B")}},
			views: []string{"StringAll", "Time", "String"}}),
	}
}

func TestCheck(t *testing.T) {
	sk.Init("C01")
	rep := kit.NewReport("C01")
	defer rep.Write()
	defer sk.Finish(rep)
	ds := drivers()
	if kit.ReplayPath() != "" {
		var rp sk.Replay
		if err := kit.LoadReplay(&rp); err != nil {
			t.Fatal(err)
		}
		for _, d := range ds {
			if d.Name == rp.Driver {
				sk.ReplayDriver(t, rep, d, rp, "c01s:")
			}
		}
		return
	}
	only := os.Getenv("AMC_DRIVER")
	for _, d := range ds {
		if only != "" && !strings.HasPrefix(d.Name, only) {
			continue
		}
		if rep.OverBudget() {
			rep.NotExhaustive("budget: driver " + d.Name + " not started")
			continue
		}
		sk.ExploreDriver(t, rep, d, "c01s:")
	}
	rep.Sample(2, map[string]any{"driver": ds[0].Name, "threads": "mutator Add1(A);Remove1(A) || reader String,StringAll,String,Inspect"})
}
