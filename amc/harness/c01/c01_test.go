// C01 (sequential half) - tick parity is activity, all views agree, ticks only
// grow, by the documented step.
//
// Explicit-state search over enumerated schemas (Multi and Auto included) x
// reachable states x Add/Remove/Set/Toggle/AddErr/CanAdd/CanRemove, without
// handlers and with handler bindings (no-op, and vetoing Auto states' Enter ->
// partial auto acceptance). The concurrent half is harness/c01s (SCHED).
package c01

import (
	"context"
	"fmt"
	"os"
	"runtime"
	"slices"
	"testing"
	"testing/synctest"
	"time"

	"amc/kit"

	am "github.com/pancsta/asyncmachine-go/pkg/machine"
)

type handlerCfg struct {
	Kind string `json:"kind"` // none | noop | veto
	Veto am.S   `json:"veto"` // states whose Enter handler returns false
}

type replayT struct {
	kit.SeqReplay
	H handlerCfg `json:"h"`
}

func bind(m *am.Machine, sp kit.Spec, h handlerCfg) {
	if h.Kind == "none" {
		return
	}
	neg := map[string]am.HandlerNegotiation{}
	fin := map[string]am.HandlerFinal{}
	for _, s := range sp.StateNames() {
		s := s
		veto := kit.Has(h.Veto, s)
		neg[s+"Enter"] = func(e *am.Event) bool { return !veto }
		neg[s+"Exit"] = func(e *am.Event) bool { return true }
		fin[s+"State"] = func(e *am.Event) {}
		fin[s+"End"] = func(e *am.Event) {}
	}
	if _, err := m.HandlersBindMaps(neg, fin); err != nil {
		panic(err)
	}
}

// checkStep evaluates the oracles on one explored step.
func checkStep(rep *kit.Report, t *kit.Trans, sc am.Schema, h handlerCfg, onChange *[][2]am.Time, qBefore uint64) (out []string, nontrivial bool) {
	f := func(format string, a ...any) { out = append(out, fmt.Sprintf(format, a...)) }
	index := t.Index
	// (M) step-level monotonicity
	for i := range t.TimeBefore {
		if t.TimeAfter[i] < t.TimeBefore[i] {
			f("M: tick of %s decreased %d -> %d", index[i], t.TimeBefore[i], t.TimeAfter[i])
		}
	}
	// check-only calls move nothing
	if t.Mut.IsCheck() {
		if !slices.Equal(t.TimeBefore, t.TimeAfter) {
			f("S: %s changed time %v -> %v", t.Mut, t.TimeBefore, t.TimeAfter)
		}
		if q := t.Mach.QueueTick(); q != qBefore {
			f("S: %s changed the queue tick %d -> %d", t.Mut, qBefore, q)
		}
	}
	if t.Result == am.Canceled && !slices.Equal(t.TimeBefore, t.TimeAfter) {
		// the called mutation was canceled; a follow-up auto transition cannot
		// exist (only after accepted changes), so nothing may have moved
		f("S: canceled %s changed time %v -> %v", t.Mut, t.TimeBefore, t.TimeAfter)
	}
	// (P) all views agree, parity == activity
	for _, b := range kit.CheckViews(t.Mach) {
		f("P: %s", b)
	}
	// per traced transition
	prev := t.TimeBefore
	for k, tx := range t.Txs {
		// (T) chain: before == previous after == views
		if !slices.Equal(tx.Before, prev) {
			f("T: tx#%d TimeBefore=%v but machine time was %v", k, tx.Before, prev)
		}
		if tx.MachTimeAtEnd != nil && !slices.Equal(tx.After, tx.MachTimeAtEnd) {
			f("T: tx#%d TimeAfter=%v but Time(nil) at TransitionEnd=%v", k, tx.After, tx.MachTimeAtEnd)
		}
		if tx.FinalsAfter != nil && tx.FinalsMach != nil && !slices.Equal(tx.FinalsAfter, tx.FinalsMach) {
			f("T: tx#%d TimeAfter=%v during the final phase but Time(nil) is %v", k, tx.FinalsAfter, tx.FinalsMach)
		}
		prev = tx.After
		for i, s := range index {
			if i >= len(tx.Before) || i >= len(tx.After) {
				continue
			}
			if tx.After[i] < tx.Before[i] {
				f("M: tx#%d tick of %s decreased", k, s)
				continue
			}
			d := tx.After[i] - tx.Before[i]
			was, is := tx.Before[i]%2 == 1, tx.After[i]%2 == 1
			called := kit.Has(tx.Called, s)
			multi := sc[s].Multi
			switch {
			case tx.IsCheck || !tx.Accepted:
				if d != 0 {
					f("S: tx#%d (check=%v accepted=%v) moved %s by %d", k, tx.IsCheck, tx.Accepted, s, d)
				}
			case was != is:
				if d != 1 {
					f("S: tx#%d flipped %s but tick moved by %d", k, s, d)
				}
			default:
				mustTwo := multi && was && is && called && tx.Type != am.MutationRemove
				mayTwo := multi && was && is && called
				if mustTwo && d != 2 {
					f("S: tx#%d called active Multi %s (%s) but tick moved by %d, want 2", k, s, tx.Type, d)
				} else if d != 0 && !(mayTwo && d == 2) {
					f("S: tx#%d %s kept activity %v but tick moved by %d (multi=%v called=%v)", k, s, is, d, multi, called)
				}
				if d == 2 {
					nontrivial = true
				}
			}
		}
		if tx.IsAuto || (!tx.Accepted && !tx.IsCheck) {
			nontrivial = true
		}
	}
	if len(t.Txs) > 0 && !slices.Equal(prev, t.TimeAfter) {
		f("T: last traced TimeAfter=%v but machine time is %v", prev, t.TimeAfter)
	}
	// OnChange reports
	if onChange != nil {
		j := 0
		for _, tx := range t.Txs {
			if tx.IsCheck {
				continue
			}
			if j >= len(*onChange) {
				f("T: OnChange not called for a non-check transition")
				break
			}
			oc := (*onChange)[j]
			j++
			if !slices.Equal(oc[0], tx.Before) || !slices.Equal(oc[1], tx.After) {
				f("T: OnChange(%v,%v) != tracer (%v,%v)", oc[0], oc[1], tx.Before, tx.After)
			}
		}
	}
	return
}

var ops = []string{"add", "remove", "set", "toggle", "canadd", "canremove"}

func exploreOne(rep *kit.Report, sp kit.Spec, h handlerCfg, label string, maxStates int) {
	if sp.HasReqRemConflict() {
		rep.Add("schemas_skipped_parse_conflict", 1)
		return
	}
	muts := kit.Mutations(sp, ops, false)
	muts = append(muts, kit.Step{Op: "adderr"})
	var sc am.Schema
	var machines []*am.Machine
	var oc [][2]am.Time
	var qBefore uint64
	setup := func(m *am.Machine) {
		bind(m, sp, h)
		m.OnChange(func(_ *am.Machine, b, a am.Time) {
			oc = append(oc, [2]am.Time{slices.Clone(b), slices.Clone(a)})
		})
		if h.Kind != "none" {
			machines = append(machines, m)
		}
	}
	st, tr, capped := kit.ExploreSpec(sp, muts, kit.ExploreOpts{Setup: setup, MaxStates: maxStates,
		BeforeMut: func(m *am.Machine) { oc = nil; qBefore = m.QueueTick() }}, func(t *kit.Trans) {
		if t.Panic != "" {
			rep.Violate("c01:panic-escaped", "mutation call panicked: "+t.Panic+" :: "+t.String(), replayT{t.Replay(), h})
			return
		}
		if sc == nil {
			sc = t.Mach.Schema()
		}
		rep.Add("evaluations", 1)
		bad, nt := checkStep(rep, t, sc, h, &oc, qBefore)
		if nt {
			rep.Add("nontrivial", 1)
		}
		for _, b := range bad {
			sig := "c01:" + b[:1]
			rep.Violate(sig, fmt.Sprintf("%s :: handlers=%v %s", b, h, t), replayT{t.Replay(), h})
		}
		// handler-bound machines hold a goroutine each: release them in
		// batches (a 5-state family makes half a million of them)
		if len(machines) >= 512 {
			disposeAll(machines)
			machines = machines[:0]
		}
	})
	rep.Add("states", int64(st))
	rep.Add("transitions", int64(tr))
	rep.Add("schemas", 1)
	if capped {
		rep.NotExhaustive("state cap hit for " + sp.String())
	}
	// release handler goroutines (fake time inside the bubble)
	disposeAll(machines)
}

func disposeAll(machines []*am.Machine) {
	for _, m := range machines {
		m.Dispose()
	}
	for _, m := range machines {
		<-m.WhenDisposed()
	}
	if len(machines) > 0 {
		time.Sleep(10 * time.Second)
	}
}

func inBubble(t *testing.T, fn func()) {
	synctest.Test(t, func(t *testing.T) { fn() })
}

func TestCheck(t *testing.T) {
	rep := kit.NewReport("C01")
	defer rep.Write()

	if kit.ReplayPath() != "" {
		var r replayT
		if err := kit.LoadReplay(&r); err != nil {
			t.Fatal(err)
		}
		inBubble(t, func() { replay(rep, r) })
		return
	}
	shard, nshard := kit.Shard()

	type job struct {
		sp    kit.Spec
		h     handlerCfg
		label string
	}
	var jobs []job
	addSpace := func(space *kit.Space, stride int64, hs func(sp kit.Spec) []handlerCfg) {
		for c := int64(0); c < space.Size(); c += stride {
			sp := space.Decode(c)
			for _, h := range hs(sp) {
				jobs = append(jobs, job{sp, h, ""})
			}
		}
	}
	none := func(kit.Spec) []handlerCfg { return []handlerCfg{{Kind: "none"}} }
	withHandlers := func(sp kit.Spec) []handlerCfg {
		out := []handlerCfg{{Kind: "noop"}}
		var autos am.S
		for i, s := range sp {
			if s.Auto {
				autos = append(autos, kit.Names[i])
			}
		}
		for _, v := range kit.Subsets(autos)[1:] {
			if len(v) <= 2 {
				out = append(out, handlerCfg{Kind: "veto", Veto: v})
			}
		}
		return out
	}
	n1 := (&kit.Space{N: 1, Auto: true, Multi: true, Rels: 3}).Build()
	n2 := (&kit.Space{N: 2, Auto: true, Multi: true, Rels: 3}).Build()
	n3 := (&kit.Space{N: 3, Auto: true, Multi: true, Rels: 3}).Build()
	addSpace(n1, 1, none)
	addSpace(n2, 1, none)
	addSpace(n1, 1, withHandlers)
	if kit.Thorough() {
		addSpace(n2, 1, withHandlers)
		addSpace(n3, 211, none) // 79k schemas of the full 3-state space
		addSpace(n3, 4099, withHandlers)
		rep.Note("spaces", "n1,n2 full (handler-less and with handlers); n3 stride 211 handler-less, stride 4099 with handlers")
	} else {
		addSpace(n2, 7, withHandlers)
		addSpace(n3, 8191, none)
		rep.Note("spaces", "n1,n2 full handler-less; n1 full + n2 stride 7 with handlers; n3 stride 8191 handler-less")
	}
	maxN := 4
	if kit.Thorough() {
		maxN = 5
	}
	for n := 3; n <= maxN; n++ {
		for _, f := range kit.Families(n) {
			jobs = append(jobs, job{f.Spec, handlerCfg{Kind: "none"}, f.Name})
			if n == 3 || kit.Thorough() {
				for _, h := range withHandlers(f.Spec) {
					jobs = append(jobs, job{f.Spec, h, f.Name})
				}
			}
		}
	}
	rep.Note("jobs", len(jobs))
	kit.Par(len(jobs), func(i int) {
		if i%nshard != shard {
			return
		}
		if rep.OverBudget() {
			rep.NotExhaustive("budget")
			return
		}
		j := jobs[i]
		if os.Getenv("C01_TRACE") != "" {
			var ms runtime.MemStats
			runtime.ReadMemStats(&ms)
			fmt.Fprintf(os.Stderr, "job %d %s h=%s heap=%dMB\n", i, j.label, j.h.Kind, ms.HeapAlloc>>20)
		}
		if j.h.Kind == "none" {
			exploreOne(rep, j.sp, j.h, j.label, 3000)
		} else {
			inBubble(t, func() { exploreOne(rep, j.sp, j.h, j.label, 3000) })
			rep.Add("handler_bound_jobs", 1)
		}
	})
	rep.Sample(4, map[string]any{"schema": n2.Decode(1000).String(), "handlers": "noop", "ops": ops})
	rep.Sample(4, map[string]any{"schema": kit.Families(4)[0].Spec.String(), "ops": "add/remove/set/toggle/canadd/canremove over all non-empty subsets + AddErr"})
}

func replay(rep *kit.Report, r replayT) {
	ctx := context.Background()
	_ = ctx
	var oc [][2]am.Time
	m, tr := kit.NewMach(r.Spec, func(m *am.Machine) {
		bind(m, r.Spec, r.H)
		m.OnChange(func(_ *am.Machine, b, a am.Time) {
			oc = append(oc, [2]am.Time{slices.Clone(b), slices.Clone(a)})
		})
	})
	for _, s := range r.Path {
		s.Apply(m)
	}
	tr.Reset()
	oc = nil
	t := &kit.Trans{Spec: r.Spec, Path: r.Path, Mut: r.Mut, Mach: m, Index: m.StateNames()}
	t.Before = m.ActiveStates(nil)
	t.TimeBefore = m.Time(nil)
	q := m.QueueTick()
	t.Result = r.Mut.Apply(m)
	t.After = m.ActiveStates(nil)
	t.TimeAfter = m.Time(nil)
	t.Txs = tr.Txs
	fmt.Printf("replay handlers=%v %s\n  time %v -> %v\n", r.H, t, t.TimeBefore, t.TimeAfter)
	for i, tx := range t.Txs {
		fmt.Printf("  tx#%d auto=%v check=%v accepted=%v %s%v %v -> %v\n", i, tx.IsAuto, tx.IsCheck, tx.Accepted, tx.Type, tx.Called, tx.Before, tx.After)
	}
	bad, _ := checkStep(rep, t, m.Schema(), r.H, &oc, q)
	for _, b := range bad {
		fmt.Println("  violation:", b)
		rep.Violate("c01:"+b[:1], b, r)
	}
	rep.Add("states", 1)
	rep.Add("transitions", 1)
	m.Dispose()
	<-m.WhenDisposed()
	time.Sleep(10 * time.Second)
}
