// C18 - pipes make the target follow the source.
//
// SCHED: a source and a target machine connected by a pipe binding; one thread
// toggles the source (bursts of Add/Remove, Multi states); the goroutines the
// pipe handlers fork per event are controlled threads. All schedules with <=
// bound deviations; oracle at joint quiescence.
package c18

import (
	"context"
	"fmt"
	"os"
	"strings"
	"testing"
	"time"

	"amc/kit"
	sk "amc/schedkit"

	am "github.com/pancsta/asyncmachine-go/pkg/machine"
	"github.com/pancsta/asyncmachine-go/pkg/states/pipes"
	"github.com/pancsta/asyncmachine-go/pkg/x/vsched"
)

type world struct {
	src, tgt *am.Machine
	results  []string
}

type def struct {
	name   string
	bound  map[string]int
	schema am.Schema
	names  am.S
	bind   func(w *world) error
	pre    func(w *world) // before the burst (sequential)
	burst  []kit.Step
	pairs  [][2]string // source state -> target state expected to follow
	any    bool        // BindAny: whole active set
}

func mk(d def) *sk.Driver {
	var w *world
	return &sk.Driver{Name: d.name, Bound: d.bound,
		Body: func(r *sk.Run) {
			w = &world{}
			ctx := context.Background()
			w.src = am.New(ctx, d.schema, &am.Opts{Id: "src"})
			w.tgt = am.New(ctx, d.schema, &am.Opts{Id: "tgt"})
			for _, m := range []*am.Machine{w.src, w.tgt} {
				if err := m.VerifyStates(d.names); err != nil {
					panic(err)
				}
			}
			if err := d.bind(w); err != nil {
				panic(err)
			}
			if d.pre != nil {
				d.pre(w)
			}
			j := sk.Go("toggler", func() {
				for _, s := range d.burst {
					res, p := kit.SafeApply(s, w.src)
					if p != "" {
						w.results = append(w.results, s.String()+"=PANIC:"+p)
					} else {
						w.results = append(w.results, fmt.Sprintf("%s=%v", s, res))
					}
				}
			})
			j()
		},
		Cleanup: func(r *sk.Run) {
			if r.S.Deadlock {
				r.Violate("deadlock", "deadlock: %v", r.S.DeadlockInfo)
			}
			if r.Wedged() {
				return
			}
			for _, res := range w.results {
				if !strings.HasSuffix(res, "=executed") {
					r.Violate("source-not-executed", "source mutation %s (piping must not block or cancel the source)", res)
				}
			}
			if d.any {
				sa, ta := w.src.ActiveStates(nil), w.tgt.ActiveStates(nil)
				if !kit.SameSet(sa, ta) {
					r.Violate("diverged-any", "BindAny: source active %v but target active %v at quiescence", sa, ta)
				}
			}
			for _, p := range d.pairs {
				if w.src.Is1(p[0]) != w.tgt.Is1(p[1]) {
					r.Violate("diverged", "source %s active=%v but target %s active=%v at quiescence (source %s, target %s)", p[0], w.src.Is1(p[0]), p[1], w.tgt.Is1(p[1]), w.src.StringAll(), w.tgt.StringAll())
				}
			}
			r.Observe("src=%s tgt=%s", w.src.String(), w.tgt.String())
			w.src.Dispose()
			w.tgt.Dispose()
			<-w.src.WhenDisposed()
			<-w.tgt.WhenDisposed()
			time.Sleep(time.Minute)
		},
	}
}

func TestCheck(t *testing.T) {
	sk.Init("C18")
	rep := kit.NewReport("C18")
	defer rep.Write()
	defer sk.Finish(rep)
	b := func(q, t int) map[string]int { return map[string]int{"quick": q, "thorough": t} }
	S := func(op string, st ...string) kit.Step { return kit.Step{Op: op, Called: st} }
	sc := am.Schema{"A": {}, "B": {}, "M": {Multi: true}, "ErrDisk": {Require: am.S{am.StateException}}, "Ready": {}, "Start": {}}
	names := am.S{"A", "B", "M", "ErrDisk", "Ready", "Start", am.StateException}
	flat := func(states ...string) func(w *world) error {
		return func(w *world) error {
			neg := map[string]am.HandlerNegotiation{}
			fin := map[string]am.HandlerFinal{}
			for _, s := range states {
				fin[s+"State"] = pipes.AddFlat(w.src, w.tgt, s, "")
				fin[s+"End"] = pipes.RemoveFlat(w.src, w.tgt, s, "")
			}
			_, err := w.src.HandlersBindMaps(neg, fin)
			return err
		}
	}
	ds := []*sk.Driver{
		mk(def{name: "bind:add,remove", bound: b(2, 3), schema: sc, names: names,
			bind:  func(w *world) error { _, err := pipes.Bind(w.src, w.tgt, "A", "", ""); return err },
			burst: []kit.Step{S("add", "A"), S("remove", "A")}, pairs: [][2]string{{"A", "A"}}}),
		mk(def{name: "bind:burst4", bound: b(1, 2), schema: sc, names: names,
			bind:  func(w *world) error { _, err := pipes.Bind(w.src, w.tgt, "A", "", ""); return err },
			burst: []kit.Step{S("add", "A"), S("remove", "A"), S("add", "A"), S("remove", "A")}, pairs: [][2]string{{"A", "A"}}}),
		mk(def{name: "bindmany", bound: b(1, 2), schema: sc, names: names,
			bind:  func(w *world) error { _, err := pipes.BindMany(w.src, w.tgt, am.S{"A", "B"}, nil); return err },
			burst: []kit.Step{S("add", "A", "B"), S("remove", "A"), S("remove", "B")}, pairs: [][2]string{{"A", "A"}, {"B", "B"}}}),
		mk(def{name: "flat:burst4", bound: b(2, 3), schema: sc, names: names,
			bind:  flat("A"),
			burst: []kit.Step{S("add", "A"), S("remove", "A"), S("add", "A"), S("remove", "A")}, pairs: [][2]string{{"A", "A"}}}),
		mk(def{name: "flat:err-with-exception", bound: b(1, 2), schema: sc, names: names,
			bind:  flat("ErrDisk"),
			pre:   func(w *world) { w.tgt.AddErr(fmt.Errorf("earlier"), nil) },
			burst: []kit.Step{S("add", "ErrDisk", am.StateException)}, pairs: [][2]string{{"ErrDisk", "ErrDisk"}}}),
		mk(def{name: "multi", bound: b(1, 2), schema: sc, names: names,
			bind:  func(w *world) error { _, err := pipes.Bind(w.src, w.tgt, "M", "", ""); return err },
			burst: []kit.Step{S("add", "M"), S("add", "M"), S("remove", "M")}, pairs: [][2]string{{"M", "M"}}}),
		mk(def{name: "bindready+start", bound: b(1, 2), schema: sc, names: names,
			bind: func(w *world) error {
				if _, err := pipes.BindReady(w.src, w.tgt, "", ""); err != nil {
					return err
				}
				_, err := pipes.BindStart(w.src, w.tgt, "", "")
				return err
			},
			burst: []kit.Step{S("add", "Start"), S("add", "Ready"), S("remove", "Ready"), S("remove", "Start")}, pairs: [][2]string{{"Ready", "Ready"}, {"Start", "Start"}}}),
		mk(def{name: "binderr", bound: b(1, 2), schema: sc, names: names,
			bind:  func(w *world) error { _, err := pipes.BindErr(w.src, w.tgt, "ErrDisk"); return err },
			burst: []kit.Step{S("adderr")}, pairs: [][2]string{{am.StateException, "ErrDisk"}, {am.StateException, am.StateException}}}),
		// the target is busy (a handler that takes several steps) while the
		// source toggles on/off/on: all three piped mutations are queued there
		mk(def{name: "busy-target:burst3", bound: b(1, 2), schema: sc, names: names,
			bind: func(w *world) error {
				_, err := w.tgt.HandlersBindMaps(nil, map[string]am.HandlerFinal{"BState": func(e *am.Event) {
					for i := 0; i < 4; i++ {
						vsched.Yield("busy")
					}
				}})
				if err != nil {
					return err
				}
				_, err = pipes.Bind(w.src, w.tgt, "A", "", "")
				return err
			},
			pre:   func(w *world) { sk.Go("busy", func() { w.tgt.Add1("B", nil) }) },
			burst: []kit.Step{S("add", "A"), S("remove", "A"), S("add", "A")}, pairs: [][2]string{{"A", "A"}}}),
		// same, with bursts that end inactive: a piped Remove that arrives while
		// the piped Add is still queued on the busy target must not be dropped
		mk(def{name: "busy-target:burst2", bound: b(1, 2), schema: sc, names: names,
			bind: func(w *world) error {
				_, err := w.tgt.HandlersBindMaps(nil, map[string]am.HandlerFinal{"BState": func(e *am.Event) {
					for i := 0; i < 4; i++ {
						vsched.Yield("busy")
					}
				}})
				if err != nil {
					return err
				}
				_, err = pipes.Bind(w.src, w.tgt, "A", "", "")
				return err
			},
			pre:   func(w *world) { sk.Go("busy", func() { w.tgt.Add1("B", nil) }) },
			burst: []kit.Step{S("add", "A"), S("remove", "A")}, pairs: [][2]string{{"A", "A"}}}),
		mk(def{name: "busy-target:burst4", bound: b(1, 2), schema: sc, names: names,
			bind: func(w *world) error {
				_, err := w.tgt.HandlersBindMaps(nil, map[string]am.HandlerFinal{"BState": func(e *am.Event) {
					for i := 0; i < 4; i++ {
						vsched.Yield("busy")
					}
				}})
				if err != nil {
					return err
				}
				_, err = pipes.Bind(w.src, w.tgt, "A", "", "")
				return err
			},
			pre:   func(w *world) { sk.Go("busy", func() { w.tgt.Add1("B", nil) }) },
			burst: []kit.Step{S("add", "A"), S("remove", "A"), S("add", "A"), S("remove", "A")}, pairs: [][2]string{{"A", "A"}}}),
		mk(def{name: "bindany", bound: b(1, 2), schema: sc, names: names, any: true,
			bind:  func(w *world) error { _, err := pipes.BindAny(w.src, w.tgt); return err },
			burst: []kit.Step{S("add", "A"), S("add", "B"), S("remove", "A")}}),
	}
	if kit.ReplayPath() != "" {
		var rp sk.Replay
		if err := kit.LoadReplay(&rp); err != nil {
			t.Fatal(err)
		}
		for _, d := range ds {
			if d.Name == rp.Driver {
				sk.ReplayDriver(t, rep, d, rp, "c18:")
			}
		}
		return
	}
	only := os.Getenv("AMC_DRIVER")
	for _, d := range ds {
		if only != "" && !strings.HasPrefix(d.Name, only) {
			continue
		}
		if rep.OverBudget() {
			rep.NotExhaustive("budget: driver " + d.Name + " not started")
			continue
		}
		sk.ExploreDriver(t, rep, d, "c18:")
	}
	rep.Sample(2, map[string]any{"driver": "bind:burst4", "source": "Add1(A) Remove1(A) Add1(A) Remove1(A)", "pipe": "pipes.Bind non-flat (forks a goroutine per event)"})
}
