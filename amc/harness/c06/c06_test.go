// C06 (sequential half) - waiting: no lost or spurious wake-ups; state contexts
// bound to one state instance.
//
// Bounded-exhaustive search over histories: schema x every history of depth
// <= D over a small mutation alphabet x subscription kind/arguments x position
// at which the subscription is made x context mode. The oracle is computed
// from the recorded tick history (tracer), not from the subscription code.
package c06

import (
	"context"
	"fmt"
	"slices"
	"strings"
	"testing"
	"testing/synctest"
	"time"

	"amc/kit"

	am "github.com/pancsta/asyncmachine-go/pkg/machine"
)

// op of a history
type op struct {
	Op     string `json:"op"` // add | remove | set | setschema | canadd
	States am.S   `json:"states"`
	Args   bool   `json:"args,omitempty"` // pass args {"k": 1}
}

func (o op) String() string {
	a := ""
	if o.Args {
		a = "+args"
	}
	return o.Op + "(" + strings.Join(o.States, ",") + ")" + a
}

type subSpec struct {
	Kind   string  `json:"kind"` // when whennot whentime whenticks whennext whenquery whenargs whenqueue statectx
	States am.S    `json:"states,omitempty"`
	Times  am.Time `json:"times,omitempty"`
	N      int     `json:"n,omitempty"`
}

func (s subSpec) String() string {
	return fmt.Sprintf("%s(%v,%v,%d)", s.Kind, s.States, s.Times, s.N)
}

type caseT struct {
	Schema string  `json:"schema"`
	Hist   []op    `json:"hist"`
	Sub    subSpec `json:"sub"`
	Pos    int     `json:"pos"`
	Ctx    string  `json:"ctx"` // nil | live | cancel@k (cancel before step k)
	CtxAt  int     `json:"ctx_at"`
	// InHandler: the subscription is made from inside the first final handler
	// called during step Pos (between the state change and the processing of
	// subscriptions of that transition) instead of before step Pos.
	InHandler bool `json:"in_handler,omitempty"`
}

var schemas = map[string]am.Schema{
	"plain3":   {"A": {}, "B": {}, "C": {}},
	"multi":    {"A": {Multi: true}, "B": {}, "C": {Require: am.S{"B"}}},
	"auto":     {"A": {}, "B": {Auto: true, Require: am.S{"A"}}, "C": {Remove: am.S{"A"}}},
	"addrem":   {"A": {Add: am.S{"B"}}, "B": {}, "C": {Remove: am.S{"B"}}},
	"autoveto": {"A": {}, "B": {Auto: true}, "C": {Auto: true}},
}

var grownState = "G"

func apply(m *am.Machine, o op, name string) {
	var args am.A
	if o.Args {
		args = am.A{"k": 1}
	}
	switch o.Op {
	case "add":
		m.Add(slices.Clone(o.States), args)
	case "remove":
		m.Remove(slices.Clone(o.States), args)
	case "set":
		m.Set(slices.Clone(o.States), args)
	case "canadd":
		m.CanAdd(slices.Clone(o.States), args)
	case "setschema":
		sc := m.Schema()
		if _, ok := sc[grownState]; ok {
			return
		}
		sc[grownState] = am.State{}
		names := append(slices.Clone(m.StateNames()), grownState)
		if err := m.SetSchema(sc, names); err != nil {
			panic(err)
		}
	}
}

type tickRec struct {
	time     am.Time
	qtick    uint64
	accepted bool
	check    bool
	argsHit  map[string]bool // states entered with args in this tx
}

type world struct {
	m     *am.Machine
	index func() am.S
	hist  []tickRec // one per traced transition since subscription
}

type tracer struct {
	*am.TracerNoOp
	w *world
}

func (t *tracer) TransitionEnd(tx *am.Transition) {
	r := tickRec{time: t.w.m.Time(nil), qtick: t.w.m.QueueTick(), accepted: tx.IsAccepted.Load(), check: tx.Mutation.IsCheck, argsHit: map[string]bool{}}
	if r.accepted && !r.check && len(tx.Mutation.Args) > 0 {
		if v, ok := tx.Mutation.Args["k"]; ok && v == 1 {
			for _, s := range tx.Enters {
				r.argsHit[s] = true
			}
		}
	}
	t.w.hist = append(t.w.hist, r)
}

func tickOf(m *am.Machine, time am.Time, s string) uint64 {
	i := slices.Index(m.StateNames(), s)
	if i < 0 || i >= len(time) {
		return 0
	}
	return time[i]
}

// cond evaluates the subscription's condition on a time snapshot.
func cond(m *am.Machine, sub subSpec, base am.Time, r tickRec) bool {
	switch sub.Kind {
	case "when":
		for _, s := range sub.States {
			if tickOf(m, r.time, s)%2 == 0 {
				return false
			}
		}
		return true
	case "whennot":
		for _, s := range sub.States {
			if tickOf(m, r.time, s)%2 == 1 {
				return false
			}
		}
		return true
	case "whentime":
		for i, s := range sub.States {
			if tickOf(m, r.time, s) < sub.Times[i] {
				return false
			}
		}
		return true
	case "whenticks":
		s := sub.States[0]
		return tickOf(m, r.time, s) >= tickOf(m, base, s)+uint64(sub.N)
	case "whennext":
		s := sub.States[0]
		return tickOf(m, r.time, s) >= tickOf(m, base, s)+uint64(am.NextActiveIn(tickOf(m, base, s)))
	case "whenquery":
		// A active and B inactive
		return tickOf(m, r.time, "A")%2 == 1 && tickOf(m, r.time, "B")%2 == 0
	case "whenargs":
		return r.argsHit[sub.States[0]]
	case "whenqueue":
		return r.qtick >= uint64(sub.N)
	}
	return false
}

type verdict struct{ sig, msg string }

// runCase executes one case and returns oracle violations. Runs in a bubble.
func runCase(c caseT) (vs []verdict, closedEver bool, panicked string) {
	defer func() {
		if p := recover(); p != nil {
			panicked = fmt.Sprint(p)
		}
	}()
	w := &world{}
	sc := schemas[c.Schema]
	names := am.S{"A", "B", "C", am.StateException}
	m := am.New(context.Background(), sc, &am.Opts{Id: "m", Tracers: []am.Tracer{&tracer{&am.TracerNoOp{Id: "t"}, w}}})
	w.m = m
	if err := m.VerifyStates(names); err != nil {
		panic(err)
	}
	var inHandlerHook func()
	if c.InHandler {
		fin := map[string]am.HandlerFinal{}
		for _, s := range []string{"A", "B", "C"} {
			for _, suf := range []string{"State", "End"} {
				fin[s+suf] = func(e *am.Event) {
					if inHandlerHook != nil {
						h := inHandlerHook
						inHandlerHook = nil
						h()
					}
				}
			}
		}
		neg := map[string]am.HandlerNegotiation{}
		if c.Schema == "autoveto" {
			neg["CEnter"] = func(e *am.Event) bool { return false }
		}
		m.HandlersBindMaps(neg, fin)
	} else if c.Schema == "autoveto" || c.Sub.Kind == "whenargs" {
		// handlers: autoveto rejects C's Enter (partial auto acceptance)
		m.HandlersBindMaps(map[string]am.HandlerNegotiation{
			"CEnter": func(e *am.Event) bool { return c.Schema != "autoveto" },
		}, map[string]am.HandlerFinal{"AState": func(e *am.Event) {}})
	}
	defer func() {
		m.Dispose()
		<-m.WhenDisposed()
		time.Sleep(10 * time.Second)
	}()
	for i := 0; i < c.Pos; i++ {
		apply(m, c.Hist[i], c.Schema)
	}
	// subscribe
	var ctx context.Context
	var cancel context.CancelFunc
	if c.Ctx != "nil" {
		ctx, cancel = context.WithCancel(context.Background())
		defer cancel()
	}
	var base am.Time
	var baseRec tickRec
	var ch <-chan struct{}
	var sctx context.Context
	sub := c.Sub
	subscribed := false
	histStart := 0
	subscribe := func() {
		subscribed = true
		base = m.Time(nil)
		baseRec = tickRec{time: base, qtick: m.QueueTick()}
		histStart = len(w.hist)
		switch sub.Kind {
		case "when":
			ch = m.When(sub.States, ctx)
		case "whennot":
			ch = m.WhenNot(sub.States, ctx)
		case "whentime":
			ch = m.WhenTime(sub.States, sub.Times, ctx)
		case "whenticks":
			ch = m.WhenTicks(sub.States[0], sub.N, ctx)
		case "whennext":
			ch = m.WhenNextActive(sub.States[0], ctx)
		case "whenquery":
			ch = m.WhenQuery(func(cl am.Clock) bool { return cl["A"]%2 == 1 && cl["B"]%2 == 0 }, ctx)
		case "whenargs":
			ch = m.WhenArgs(sub.States[0], am.A{"k": 1}, ctx)
		case "whenqueue":
			sub.N = int(m.QueueTick()) + c.Sub.N // relative -> absolute
			ch = m.WhenQueue(am.Result(sub.N))
		case "statectx":
			sctx = m.NewStateCtx(sub.States[0])
		}
	}
	if !c.InHandler {
		subscribe()
	}
	isClosed := func() bool {
		if sctx != nil {
			return sctx.Err() != nil
		}
		select {
		case <-ch:
			return true
		default:
			return false
		}
	}
	held := false
	evalHeldAtSub := func() {
		if sub.Kind != "whenquery" && sub.Kind != "statectx" && sub.Kind != "whenargs" {
			held = cond(m, sub, base, baseRec)
		}
	}
	if subscribed {
		evalHeldAtSub()
	}
	ctxEnded := false
	txAfterCtxEnd := false
	check := func(where string) {
		cl := isClosed()
		if cl {
			closedEver = true
		}
		if sub.Kind == "statectx" {
			changed := tickOf(m, m.Time(nil), sub.States[0]) != tickOf(m, base, sub.States[0])
			if changed && !cl {
				vs = append(vs, verdict{"statectx-alive", fmt.Sprintf("%s: state ctx of %s still alive although its tick moved %d -> %d", where, sub.States[0], tickOf(m, base, sub.States[0]), tickOf(m, m.Time(nil), sub.States[0]))})
			}
			if !changed && cl {
				vs = append(vs, verdict{"statectx-canceled", fmt.Sprintf("%s: state ctx of %s canceled although its tick did not change", where, sub.States[0])})
			}
			return
		}
		must := held || (ctxEnded && txAfterCtxEnd)
		if must && !cl {
			vs = append(vs, verdict{"lost:" + sub.Kind, fmt.Sprintf("%s: %s still open although its condition has held (or its ctx ended and a transition ran)", where, sub)})
		}
		if !held && !ctxEnded && cl {
			vs = append(vs, verdict{"spurious:" + sub.Kind, fmt.Sprintf("%s: %s closed although its condition never held (time now %v, base %v)", where, sub, m.Time(nil), base)})
		}
	}
	if subscribed {
		check("at-subscription")
	}
	for k := c.Pos; k < len(c.Hist); k++ {
		if c.InHandler && k == c.Pos {
			inHandlerHook = func() {
				subscribe()
				evalHeldAtSub()
				if sub.Kind == "whenqueue" {
					sub.N = int(m.QueueTick()) + c.Sub.N
				}
			}
		}
		if c.Ctx == "cancel" && c.CtxAt == k {
			cancel()
			ctxEnded = true
		}
		n0 := len(w.hist)
		apply(m, c.Hist[k], c.Schema)
		if c.InHandler && k == c.Pos {
			n0 = histStart // transitions that ended after the in-handler subscription
		}
		for _, r := range w.hist[n0:] {
			if r.accepted && !r.check {
				if cond(m, sub, base, r) {
					held = true
				}
				if ctxEnded {
					txAfterCtxEnd = true
				}
			}
			if sub.Kind == "whenqueue" && r.qtick >= uint64(sub.N) {
				held = true // processed, accepted or canceled
			}
		}
		if !subscribed {
			return // no final handler ran in that step: nothing subscribed
		}
		check(fmt.Sprintf("after-step-%d(%s)", k, c.Hist[k]))
	}
	return
}

func alphabet(schema string) []op {
	base := []op{
		{"add", am.S{"A"}, false}, {"add", am.S{"B"}, false}, {"add", am.S{"C"}, false},
		{"remove", am.S{"A"}, false}, {"remove", am.S{"B"}, false},
		{"add", am.S{"A", "B"}, false}, {"set", am.S{"C"}, false},
	}
	switch schema {
	case "multi":
		base = append(base, op{"add", am.S{"A"}, true})
	case "plain3":
		base = append(base, op{"setschema", nil, false}, op{"add", am.S{"A"}, true}, op{"canadd", am.S{"B"}, false})
	}
	return base
}

func subs(schema string) []subSpec {
	out := []subSpec{
		{Kind: "when", States: am.S{"A"}}, {Kind: "when", States: am.S{"A", "B"}}, {Kind: "when", States: am.S{"B", "C"}},
		{Kind: "whennot", States: am.S{"A"}}, {Kind: "whennot", States: am.S{"A", "B"}},
		{Kind: "whentime", States: am.S{"A"}, Times: am.Time{2}}, {Kind: "whentime", States: am.S{"A", "B"}, Times: am.Time{1, 3}},
		{Kind: "whenticks", States: am.S{"A"}, N: 1}, {Kind: "whenticks", States: am.S{"B"}, N: 2},
		{Kind: "whennext", States: am.S{"A"}}, {Kind: "whennext", States: am.S{"B"}},
		{Kind: "whenquery"},
		{Kind: "whenqueue", N: 0}, {Kind: "whenqueue", N: 1}, {Kind: "whenqueue", N: 2},
		{Kind: "statectx", States: am.S{"A"}}, {Kind: "statectx", States: am.S{"B"}},
	}
	if schema == "plain3" || schema == "multi" {
		out = append(out, subSpec{Kind: "whenargs", States: am.S{"A"}})
	}
	if schema == "plain3" {
		out = append(out, subSpec{Kind: "when", States: am.S{grownState}}, subSpec{Kind: "whentime", States: am.S{"A", grownState}, Times: am.Time{3, 1}})
	}
	return out
}

func TestCheck(t *testing.T) {
	rep := kit.NewReport("C06")
	defer rep.Write()
	if kit.ReplayPath() != "" {
		var c caseT
		if err := kit.LoadReplay(&c); err != nil {
			t.Fatal(err)
		}
		synctest.Test(t, func(t *testing.T) {
			vs, _, p := runCase(c)
			fmt.Printf("replay %+v\n", c)
			if p != "" {
				fmt.Println("  panic:", p)
				rep.Violate("c06:panic:"+c.Sub.Kind, p, c)
			}
			for _, v := range vs {
				fmt.Println("  violation:", v.sig, v.msg)
				rep.Violate("c06:"+v.sig, v.msg, c)
			}
		})
		rep.Add("states", 1)
		rep.Add("transitions", 1)
		return
	}
	shard, nshard := kit.Shard()
	depth := 3
	if kit.Thorough() {
		depth = 4
	}
	type job struct {
		schema string
		hist   []op
	}
	var jobs []job
	var names []string
	for n := range schemas {
		names = append(names, n)
	}
	slices.Sort(names)
	for _, n := range names {
		al := alphabet(n)
		var rec func(h []op)
		rec = func(h []op) {
			if len(h) == depth {
				jobs = append(jobs, job{n, slices.Clone(h)})
				return
			}
			for _, o := range al {
				rec(append(h, o))
			}
		}
		rec(nil)
	}
	rep.Note("histories", fmt.Sprintf("%d (depth %d, %d schemas)", len(jobs), depth, len(names)))
	kit.Par(len(jobs), func(i int) {
		if i%nshard != shard {
			return
		}
		if rep.OverBudget() {
			rep.NotExhaustive("budget")
			return
		}
		j := jobs[i]
		rep.Add("states", 1)
		synctest.Test(t, func(t *testing.T) {
			for _, sub := range subs(j.schema) {
				for pos := 0; pos <= len(j.hist); pos++ {
					if kit.Has(sub.States, grownState) {
						// the grown state only exists after SetSchema
						grown := false
						for _, o := range j.hist[:pos] {
							if o.Op == "setschema" {
								grown = true
							}
						}
						if !grown {
							continue
						}
					}
					modes := []caseT{{Ctx: "nil"}}
					if sub.Kind != "whenqueue" && sub.Kind != "statectx" {
						modes = append(modes, caseT{Ctx: "live"})
						for k := pos; k < len(j.hist); k++ {
							modes = append(modes, caseT{Ctx: "cancel", CtxAt: k})
						}
					}
					if pos < len(j.hist) && sub.Kind != "whenargs" {
						modes = append(modes, caseT{Ctx: "nil", InHandler: true})
						if sub.Kind != "whenqueue" && sub.Kind != "statectx" {
							modes = append(modes, caseT{Ctx: "live", InHandler: true})
						}
					}
					for _, mo := range modes {
						c := caseT{Schema: j.schema, Hist: j.hist, Sub: sub, Pos: pos, Ctx: mo.Ctx, CtxAt: mo.CtxAt, InHandler: mo.InHandler}
						vs, closed, p := runCase(c)
						rep.Add("evaluations", 1)
						rep.Add("transitions", 1)
						if closed {
							rep.Add("nontrivial", 1)
							rep.Distinct("closed_kinds", sub.Kind+"/"+mo.Ctx)
						}
						if p != "" {
							rep.Violate("c06:panic:"+sub.Kind+":"+mo.Ctx, fmt.Sprintf("panic: %s :: %+v", p, c), c)
						}
						for _, v := range vs {
							rep.Violate("c06:"+v.sig, fmt.Sprintf("%s :: schema=%s hist=%v pos=%d ctx=%s@%d", v.msg, c.Schema, c.Hist, c.Pos, c.Ctx, c.CtxAt), c)
						}
					}
				}
			}
		})
	})
	rep.Sample(4, caseT{Schema: "multi", Hist: jobs[len(jobs)/2].hist, Sub: subSpec{Kind: "whenticks", States: am.S{"A"}, N: 1}, Pos: 1, Ctx: "cancel", CtxAt: 2})
}
