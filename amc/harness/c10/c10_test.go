// C10 - RPC clock diffs round-trip exactly and the checksum catches any drift.
//
// Bounded-exhaustive (SEQ, in-package helpers overlaid under the build tag
// verif): for every layout (state count, tracked subset as allow- or skip-list,
// schema / no-schema index space, deep / shallow) and every pair of snapshots
// (per-state tick deltas, queue-tick and machine-tick deltas from small
// domains plus field-boundary values) the update produced by the real source
// tracer + calcUpdate is applied by the real Client.clockUpdate to a mirror
// created by the real handshake code.
package c10

import (
	"context"
	"fmt"
	"slices"
	"testing"
	"testing/synctest"
	"time"

	"amc/kit"

	am "github.com/pancsta/asyncmachine-go/pkg/machine"
	rpc "github.com/pancsta/asyncmachine-go/pkg/rpc"
)

type layout struct {
	N          int    `json:"n"`
	Tracked    []int  `json:"tracked"`
	Mode       string `json:"mode"` // all | allow | skip
	SyncSchema bool   `json:"schema"`
	Shallow    bool   `json:"shallow"`
}

type caseT struct {
	L     layout     `json:"layout"`
	A     am.Time    `json:"a"`
	D     []uint64   `json:"delta"`
	QA    uint64     `json:"qa"`
	DQ    uint64     `json:"dq"`
	MA    uint32     `json:"ma"`
	DM    uint32     `json:"dm"`
	Drift *[4]uint64 `json:"drift,omitempty"` // idx, dTick, dQueue, dMach
	Chain int        `json:"chain,omitempty"` // per-mutation chain length
}

func names(n int) am.S {
	out := make(am.S, n)
	for i := range out {
		out[i] = fmt.Sprintf("S%d", i)
	}
	return out
}

func (l layout) cfg() rpc.VerifCfg {
	c := rpc.VerifCfg{N: l.N, SyncSchema: l.SyncSchema, Shallow: l.Shallow}
	all := names(l.N)
	var tr am.S
	for _, i := range l.Tracked {
		tr = append(tr, all[i])
	}
	switch l.Mode {
	case "allow":
		c.Allowed = append(tr, am.StateException)
	case "skip":
		c.Skipped = kit.Diff(all, tr)
	}
	return c
}

// expected mirror for snapshot b
func check(c caseT, p *rpc.VerifPair, b rpc.VerifSnap, accepted bool) (bad []string) {
	f := func(format string, a ...any) { bad = append(bad, fmt.Sprintf(format, a...)) }
	// the source's first update carries the absolute machine tick (the handshake does not)
	effDM := c.DM + c.MA
	_ = effDM
	mn, mt, mq, mm := p.Mirror()
	all := append(names(c.L.N), am.StateException)
	tracked := p.Tracked()
	fits := c.DQ < 1<<16 && effDM < 1<<8
	for _, d := range c.D {
		if d >= 1<<32 {
			fits = false
		}
	}
	if !fits {
		// deltas beyond the message field widths: the only demand is that the
		// update is not accepted with a wrong mirror; tagged so that the known
		// truncation finding cannot hide an in-range mismatch
		defer func() {
			for i := range bad {
				bad[i] = "overflow-" + bad[i]
			}
		}()
	}
	if !accepted {
		if fits {
			f("rejected: a valid update was rejected by the client (mirror %v q%d m%d, want time %v q%d m%d)", mt, mq, mm, b.Time, b.QueueTick, b.MachTick)
		}
		return
	}
	for i, s := range all {
		mi := slices.Index(mn, s)
		isTracked := slices.Contains(tracked, s)
		if mi < 0 {
			if isTracked {
				f("missing: tracked state %s is not in the mirror's index %v", s, mn)
			}
			continue
		}
		if !isTracked {
			continue
		}
		want := uint64(0)
		if i < len(b.Time) {
			want = b.Time[i]
		}
		if c.L.Shallow {
			if mt[mi]%2 != want%2 {
				f("roundtrip: shallow mirror of %s has tick %d (parity %d), source tick %d", s, mt[mi], mt[mi]%2, want)
			}
		} else if mt[mi] != want {
			f("roundtrip: mirror of %s has tick %d, source has %d (mirror %v, source %v)", s, mt[mi], want, mt, b.Time)
		}
	}
	if mq != b.QueueTick {
		f("roundtrip-queue: mirror queue tick %d, source %d", mq, b.QueueTick)
	}
	if mm != b.MachTick {
		f("roundtrip-mach: mirror machine tick %d, source %d", mm, b.MachTick)
	}
	return
}

func runCase(c caseT) (bad []string, nontrivial bool) {
	defer func() {
		if p := recover(); p != nil {
			bad = append(bad, fmt.Sprintf("panic: %v", p))
		}
	}()
	ctx := context.Background()
	a := rpc.VerifSnap{Time: append(slices.Clone(c.A), 0), QueueTick: c.QA, MachTick: c.MA}
	p, err := rpc.VerifNewPair(ctx, c.L.cfg(), a)
	if err != nil {
		return []string{"setup: " + err.Error()}, false
	}
	defer func() {
		p.Dispose()
		time.Sleep(10 * time.Second)
	}()
	b := rpc.VerifSnap{Time: slices.Clone(a.Time), QueueTick: c.QA + c.DQ, MachTick: c.MA + c.DM}
	for i, d := range c.D {
		b.Time[i] += d
		if d > 0 && slices.Contains(c.L.Tracked, i) {
			nontrivial = true
		}
	}
	if c.Chain == 2 {
		// two successive pushes: a -> b -> b' (b' repeats the deltas once more)
		acc, _ := p.Step(b)
		bad = check(c, p, b, acc)
		b2 := rpc.VerifSnap{Time: slices.Clone(b.Time), QueueTick: b.QueueTick + c.DQ, MachTick: b.MachTick + c.DM}
		for i, d := range c.D {
			b2.Time[i] += d
		}
		acc2, _ := p.Step(b2)
		c2 := c
		c2.MA = 0 // the second diff is relative
		for _, x := range check(c2, p, b2, acc2) {
			bad = append(bad, "second-"+x)
		}
		return bad, true
	}
	if c.Drift != nil {
		_, t0, q0, m0 := p.Mirror()
		p.Drift(int(c.Drift[0]), c.Drift[1], c.Drift[2], uint32(c.Drift[3]))
		_, t1, q1, m1 := p.Mirror()
		var s0, s1 uint64
		for _, v := range t0 {
			s0 += v
		}
		for _, v := range t1 {
			s1 += v
		}
		if c.L.Shallow {
			return nil, false // shallow checksum is not the tick sum; covered by the round trip
		}
		differs := uint8(s0+q0+uint64(m0)) != uint8(s1+q1+uint64(m1))
		acc, _ := p.Step(b)
		if differs && acc {
			_, t2, q2, m2 := p.Mirror()
			bad = append(bad, fmt.Sprintf("drift-accepted: mirror drifted to %v q%d m%d (sum differs mod 256) but the update was applied: %v q%d m%d", t1, q1, m1, t2, q2, m2))
		}
		if differs && !acc {
			_, t2, q2, m2 := p.Mirror()
			if !slices.Equal(t1, t2) || q1 != q2 || m1 != m2 {
				bad = append(bad, fmt.Sprintf("drift-mutated: rejected update still changed the mirror %v -> %v", t1, t2))
			}
		}
		return bad, true
	}
	acc, _ := p.Step(b)
	return check(c, p, b, acc), nontrivial
}

func layouts(maxN int) []layout {
	var out []layout
	for n := 1; n <= maxN; n++ {
		idx := make([]string, n)
		for i := range idx {
			idx[i] = fmt.Sprint(i)
		}
		for _, sub := range kit.Subsets(idx)[1:] {
			var tr []int
			for _, s := range sub {
				var v int
				fmt.Sscan(s, &v)
				tr = append(tr, v)
			}
			for _, mode := range []string{"all", "allow", "skip"} {
				if mode == "all" && len(tr) != n {
					continue
				}
				if mode != "all" && len(tr) == n {
					continue
				}
				for _, sch := range []bool{true, false} {
					for _, sh := range []bool{false, true} {
						out = append(out, layout{n, tr, mode, sch, sh})
					}
				}
			}
		}
	}
	return out
}

func vectors(n int, vals []uint64) [][]uint64 {
	out := [][]uint64{{}}
	for i := 0; i < n; i++ {
		var next [][]uint64
		for _, p := range out {
			for _, v := range vals {
				next = append(next, append(slices.Clone(p), v))
			}
		}
		out = next
	}
	return out
}

func TestCheck(t *testing.T) {
	rep := kit.NewReport("C10")
	defer rep.Write()
	if kit.ReplayPath() != "" {
		var c caseT
		if err := kit.LoadReplay(&c); err != nil {
			t.Fatal(err)
		}
		synctest.Test(t, func(t *testing.T) {
			bad, _ := runCase(c)
			fmt.Printf("replay %+v\n", c)
			for _, b := range bad {
				fmt.Println("  violation:", b)
				rep.Violate("c10:"+b[:idx(b)], b, c)
			}
		})
		rep.Add("states", 1)
		rep.Add("transitions", 1)
		return
	}
	shard, nshard := kit.Shard()
	maxN, maxD := 3, uint64(2)
	if kit.Thorough() {
		maxN, maxD = 4, 3
	}
	var dvals []uint64
	for d := uint64(0); d <= maxD; d++ {
		dvals = append(dvals, d)
	}
	ls := layouts(maxN)
	rep.Note("layouts", len(ls))
	var cases []caseT
	for _, l := range ls {
		avals := []uint64{0, 1, 2}
		if l.N >= 3 && !kit.Thorough() {
			avals = []uint64{0, 1}
		}
		for ai, a := range vectors(l.N, avals) {
			for _, d := range vectors(l.N, dvals) {
				for _, dq := range []uint64{0, 1, 3} {
					qa := uint64(1)
					if ai%2 == 1 {
						qa = 7
					}
					cases = append(cases, caseT{L: l, A: a, D: d, QA: qa, DQ: dq})
				}
			}
		}
		// machine tick (source imported before / between) and boundaries, on a base vector
		base := make([]uint64, l.N)
		one := make([]uint64, l.N)
		one[l.Tracked[0]] = 1
		for _, ma := range []uint32{0, 1, 3} {
			for _, dm := range []uint32{0, 1, 255, 256} {
				cases = append(cases, caseT{L: l, A: base, D: one, QA: 1, DQ: 1, MA: ma, DM: dm})
			}
		}
		// two pushes in a row (the second diff is relative to the first push),
		// also with a non-zero machine tick (source imported before)
		for _, ma := range []uint32{0, 1, 3} {
			for _, dm := range []uint32{0, 1} {
				cases = append(cases, caseT{L: l, A: base, D: one, QA: 1, DQ: 1, MA: ma, DM: dm, Chain: 2})
				cases = append(cases, caseT{L: l, A: base, D: base, QA: 1, DQ: 1, MA: ma, DM: dm, Chain: 2})
			}
		}
		// drift with an all-zero state delta (only the queue tick moves)
		for i := 0; i < l.N; i++ {
			for _, dr := range [][3]uint64{{1, 0, 0}, {0, 1, 0}, {0, 0, 1}} {
				cases = append(cases, caseT{L: l, A: base, D: base, QA: 1, DQ: 1, Drift: &[4]uint64{uint64(i), dr[0], dr[1], dr[2]}})
			}
		}
		for _, dq := range []uint64{1<<16 - 1, 1 << 16} {
			cases = append(cases, caseT{L: l, A: base, D: one, QA: 1, DQ: dq})
		}
		big := make([]uint64, l.N)
		for _, bd := range []uint64{1<<32 - 1, 1 << 32} {
			big[l.Tracked[0]] = bd
			cases = append(cases, caseT{L: l, A: base, D: slices.Clone(big), QA: 1, DQ: 1})
		}
		// drift: every single perturbation of the mirror from a small grid
		for i := 0; i < l.N; i++ {
			for _, dr := range [][3]uint64{{1, 0, 0}, {2, 0, 0}, {0, 1, 0}, {0, 0, 1}, {255, 0, 0}, {256, 0, 0}, {1, 255, 0}} {
				cases = append(cases, caseT{L: l, A: base, D: one, QA: 1, DQ: 1, Drift: &[4]uint64{uint64(i), dr[0], dr[1], dr[2]}})
			}
		}
	}
	rep.Note("cases", len(cases))
	kit.Par(len(cases), func(i int) {
		if i%nshard != shard {
			return
		}
		if rep.OverBudget() {
			rep.NotExhaustive("budget")
			return
		}
		c := cases[i]
		var bad []string
		var nt bool
		synctest.Test(t, func(t *testing.T) { bad, nt = runCase(c) })
		rep.Add("evaluations", 1)
		rep.Add("transitions", 1)
		if nt {
			rep.Add("nontrivial", 1)
		}
		for _, b := range bad {
			sig := "c10:" + b[:idx(b)]
			mode := "deep"
			if c.L.Shallow {
				mode = "shallow"
			}
			sch := "schema"
			if !c.L.SyncSchema {
				sch = "noschema"
			}
			rep.Violate(sig+":"+mode+":"+sch+":"+c.L.Mode, fmt.Sprintf("%s :: %+v", b, c), c)
		}
	})
	rep.Add("states", int64(len(ls)))
	rep.Sample(3, cases[len(cases)/2])
}

func idx(b string) int {
	for i, ch := range b {
		if ch == ':' {
			return i
		}
	}
	return len(b)
}
