// C08 - handler faults are contained: panic/timeout becomes Exception, the
// machine lives on.
//
// Fault enumeration (ENV engine, one synctest bubble per case): for every base
// transition (BFS over small handler-bound schemas) and every handler call
// position of the step - including the handlers of the Exception transition
// that follows a panic - inject panic(error), panic(string), a stall past
// HandlerTimeout, or a stall past HandlerDeadline; singly and in ordered pairs.
package c08

import (
	"context"
	"errors"
	"fmt"
	"slices"
	"strings"
	"testing"
	"testing/synctest"
	"time"

	"amc/kit"

	am "github.com/pancsta/asyncmachine-go/pkg/machine"
)

const (
	hTimeout  = 100 * time.Millisecond
	hDeadline = 2 * time.Second
	hBackoff  = 3 * time.Second
)

type fault struct {
	At   int    `json:"at"`   // index of the handler call within the step (0-based)
	Kind string `json:"kind"` // perr | pstr | stall | deadline
}

type cfg struct {
	Faults   []fault `json:"faults"`
	Bindings int     `json:"bindings"`
	ExcEmbed bool    `json:"exc_embed"` // bind a struct embedding am.ExceptionHandler too
}

type replayT struct {
	kit.SeqReplay
	Cfg cfg `json:"cfg"`
}

type excHandlers struct {
	*am.ExceptionHandler
}

const panicText = "boom-c08"

// outcome of one case
type outcome struct {
	t          *kit.Trans
	log        *kit.HLog
	fired      []firedT
	probeAdd   am.Result
	probeRem   am.Result
	probeBlock bool
	errAfter   error
	errInt     []error
	excActive  bool
	views      []string
	afterStep  am.S
	timeStep   am.Time
}

type firedT struct {
	fault
	Name string
	TxId string
}

// runCase executes path + mutation with the faults armed for the step, then
// the probe. Must run inside a bubble.
func runCase(sp kit.Spec, path []kit.Step, mut kit.Step, c cfg) (o *outcome, m *am.Machine) {
	o = &outcome{}
	l := kit.NewHLog()
	o.log = l
	armed := false
	idx := 0
	var tr *kit.RecTracer
	states := append(slices.Clone(sp.StateNames()), "P")
	setup := func(mm *am.Machine) {
		l.Mach = mm
		mm.HandlerDeadline = hDeadline
		mm.HandlerBackoff = hBackoff
		// logging handlers for user states, P, and Exception
		for b := 0; b < c.Bindings; b++ {
			l.BindAll(mm, states, fmt.Sprintf("b%d", b), "", nil)
		}
		// Exception handlers: Enter/State/End + self
		neg := map[string]am.HandlerNegotiation{}
		fin := map[string]am.HandlerFinal{}
		for _, n := range []string{"ExceptionEnter", "ExceptionExit", "ExceptionException"} {
			n := n
			neg[n] = func(e *am.Event) bool { return l.Record("exc", n, e, true) }
		}
		for _, n := range []string{"ExceptionState", "ExceptionEnd"} {
			n := n
			fin[n] = func(e *am.Event) { l.Record("exc", n, e, false) }
		}
		if _, err := mm.HandlersBindMaps(neg, fin, am.BindOpts{Id: "exc"}); err != nil {
			panic(err)
		}
		if c.ExcEmbed {
			if _, err := mm.HandlersBind(&excHandlers{}); err != nil {
				panic(err)
			}
		}
	}
	l.Hook = func(cl *kit.HCall, e *am.Event) {
		if !armed {
			return
		}
		i := idx
		idx++
		for _, f := range c.Faults {
			if f.At != i {
				continue
			}
			o.fired = append(o.fired, firedT{f, cl.Name, cl.TxId})
			switch f.Kind {
			case "perr":
				panic(errors.New(panicText))
			case "pstr":
				panic(panicText)
			case "stall":
				time.Sleep(3 * hTimeout)
			case "deadline":
				time.Sleep(hDeadline + 2*time.Second)
			}
		}
	}
	// schema with the extra probe state P
	sc := sp.Schema()
	sc["P"] = am.State{}
	trc := kit.NewRecTracer("rec")
	tr = trc
	m = am.New(context.Background(), sc, &am.Opts{Id: "m", Tracers: []am.Tracer{tr}, HandlerTimeout: hTimeout})
	tr.Mach = m
	if err := m.VerifyStates(append(slices.Clone(states), am.StateException)); err != nil {
		panic(err)
	}
	setup(m)
	for _, s := range path {
		kit.SafeApply(s, m)
	}
	tr.Reset()
	l.Reset()
	t := &kit.Trans{Spec: sp, Path: path, Mut: mut, Mach: m, Index: m.StateNames()}
	t.Before = m.ActiveStates(nil)
	t.TimeBefore = m.Time(nil)
	armed = true
	t.Result, t.Panic = kit.SafeApply(mut, m)
	armed = false
	t.Txs = slices.Clone(tr.Txs)
	o.t = t
	if t.Panic != "" {
		return
	}
	t.After = m.ActiveStates(nil)
	t.TimeAfter = m.Time(nil)
	o.afterStep, o.timeStep = t.After, t.TimeAfter
	o.errAfter = m.Err()
	o.excActive = m.Is1(am.StateException)
	o.views = kit.CheckViews(m)
	// drain internal errors
	for more := true; more; {
		select {
		case e, ok := <-m.ErrInternal():
			if !ok {
				more = false
			} else {
				o.errInt = append(o.errInt, e)
			}
		default:
			more = false
		}
	}
	// probe (after the documented backoff for deadline faults)
	for _, f := range o.fired {
		if f.Kind == "deadline" {
			time.Sleep(hBackoff + hDeadline + 3*time.Second)
			break
		}
	}
	done := make(chan struct{})
	go func() {
		defer close(done)
		o.probeAdd, _ = kit.SafeApply(kit.Step{Op: "add", Called: am.S{"P"}}, m)
		o.probeRem, _ = kit.SafeApply(kit.Step{Op: "remove", Called: am.S{"P"}}, m)
	}()
	select {
	case <-done:
	case <-time.After(time.Minute):
		o.probeBlock = true
	}
	return
}

// judge evaluates the containment predicates.
func judge(o *outcome, sc am.Schema, c cfg) (bad []string) {
	f := func(format string, a ...any) { bad = append(bad, fmt.Sprintf(format, a...)) }
	t := o.t
	if t.Panic != "" {
		f("escaped: the fault escaped to the caller: %s", t.Panic)
		return
	}
	if o.probeBlock {
		f("wedged: probe mutation did not return within a minute after the fault")
		return
	}
	if len(o.fired) == 0 {
		return
	}
	if o.probeAdd != am.Executed || o.probeRem != am.Executed {
		f("wedged: probe Add1(P)/Remove1(P) returned %v/%v after the fault, want executed/executed", o.probeAdd, o.probeRem)
	}
	for _, v := range o.views {
		f("parity: %s", v)
	}
	first := o.fired[0]
	kind := kit.HandlerKind(first.Name)
	isPanic := first.Kind == "perr" || first.Kind == "pstr"
	inExc := strings.HasPrefix(first.Name, "Exception")
	// which transition did the first fault hit?
	var hit *kit.TxRec
	for i := range t.Txs {
		if t.Txs[i].Id == first.TxId {
			hit = &t.Txs[i]
		}
	}
	if len(o.fired) > 1 {
		// sequences of faults: containment only (escape / wedge / parity above);
		// the second fault may legitimately cancel the Exception transition
		return
	}
	if isPanic {
		if !o.excActive {
			f("exception: panic in %s did not leave Exception active (active %v)", first.Name, o.afterStep)
		}
		if o.errAfter == nil || !strings.Contains(o.errAfter.Error(), panicText) {
			f("exception: Err()=%v does not carry the panic message", o.errAfter)
		}
	} else {
		timeoutSeen := false
		for _, e := range o.errInt {
			if errors.Is(e, am.ErrHandlerTimeout) {
				timeoutSeen = true
			}
		}
		if o.errAfter != nil && errors.Is(o.errAfter, am.ErrHandlerTimeout) {
			timeoutSeen = true
		}
		if !timeoutSeen {
			f("timeout: stall in %s was not reported as ErrHandlerTimeout (internal errors %v, Err %v)", first.Name, o.errInt, o.errAfter)
		}
		if hit != nil && !hit.IsAuto && hit.Id == firstNonAuto(t.Txs) && t.Result != am.Canceled {
			f("timeout: stall in %s but the mutation returned %v, want Canceled", first.Name, t.Result)
		}
	}
	// state effects of a single fault in the called mutation's own transition
	if len(o.fired) == 1 && hit != nil && hit.Id == firstNonAuto(t.Txs) && !inExc && c.Bindings == 1 && !hasAuto(sc) {
		B := kit.ActiveOf(t.Index, hit.Before)
		var want am.S
		if kit.IsNegotiation(kind) {
			want = B
		} else if kind == "anystate" {
			want = kit.Union(kit.Diff(B, hit.Exits), hit.Enters)
		} else {
			// finals order: Exits then Enters; handlers completed before the faulty one keep their effect
			finals := append(slices.Clone(hit.Exits), hit.Enters...)
			fs := kit.HandlerState(first.Name)
			k := slices.Index(finals, fs)
			if kind == "state" {
				k = len(hit.Exits) + slices.Index(hit.Enters, fs)
			}
			want = slices.Clone(B)
			for i, s := range finals {
				if i >= k {
					break
				}
				if i < len(hit.Exits) {
					want = kit.Diff(want, am.S{s})
				} else {
					want = kit.Union(want, am.S{s})
				}
			}
		}
		// the state right after the faulty transition: what the next traced
		// transition (the Exception one) saw before it ran, if there is one
		afterFault := o.afterStep
		timeAfterFault := o.timeStep
		for i := range t.Txs {
			if t.Txs[i].Id == hit.Id && i+1 < len(t.Txs) {
				afterFault = kit.ActiveOf(t.Index, t.Txs[i+1].Before)
				timeAfterFault = t.Txs[i+1].Before
			}
		}
		// a re-entered (already active) Multi state: whether rolling back the
		// new instance deactivates the state is not fixed by the statement
		if k := kit.HandlerKind(first.Name); k == "state" {
			fs := kit.HandlerState(first.Name)
			if sc[fs].Multi && kit.Has(B, fs) {
				return
			}
		}
		// ignore re-entered Multi states (already active before and in Enters):
		// what rolling back a re-activation means is not fixed by the statement
		ignore := am.S{am.StateException}
		for _, s := range hit.Enters {
			if sc[s].Multi && kit.Has(B, s) {
				ignore = append(ignore, s)
			}
		}
		got := kit.Diff(afterFault, ignore)
		wantNoExc := kit.Diff(want, ignore)
		{
			if !kit.SameSet(got, wantNoExc) {
				phase := "negotiation"
				if !kit.IsNegotiation(kind) {
					phase = "final"
				}
				f("rollback-%s: fault (%s) in %s: active set %v, want %v (before %v, exits %v, enters %v)", phase, first.Kind, first.Name, got, wantNoExc, B, hit.Exits, hit.Enters)
			}
		}
		if kit.IsNegotiation(kind) {
			for i, s := range t.Index {
				if s != am.StateException && i < len(timeAfterFault) && timeAfterFault[i] != hit.Before[i] {
					f("rollback-negotiation: fault in %s moved the tick of %s %d -> %d", first.Name, s, hit.Before[i], timeAfterFault[i])
				}
			}
		}
	}
	return
}

func hasAuto(sc am.Schema) bool {
	for _, s := range sc {
		if s.Auto {
			return true
		}
	}
	return false
}

func firstNonAuto(txs []kit.TxRec) string {
	for _, tx := range txs {
		if !tx.IsAuto {
			return tx.Id
		}
	}
	return ""
}

func dispose(m *am.Machine) {
	m.Dispose()
	select {
	case <-m.WhenDisposed():
	case <-time.After(time.Minute):
	}
	time.Sleep(30 * time.Second)
}

// oneCase runs a case in its own bubble; a bubble deadlock is a wedge.
func oneCase(t *testing.T, rep *kit.Report, sp kit.Spec, path []kit.Step, mut kit.Step, c cfg) (o *outcome, bad []string) {
	func() {
		defer func() {
			if p := recover(); p != nil {
				bad = append(bad, fmt.Sprintf("wedged: bubble did not finish: %v", p))
			}
		}()
		synctest.Test(t, func(t *testing.T) {
			var m *am.Machine
			o, m = runCase(sp, path, mut, c)
			bad = judge(o, m.Schema(), c)
			if !o.probeBlock && o.t.Panic == "" {
				dispose(m)
			}
		})
	}()
	return
}

func TestCheck(t *testing.T) {
	rep := kit.NewReport("C08")
	defer rep.Write()
	if kit.ReplayPath() != "" {
		var r replayT
		if err := kit.LoadReplay(&r); err != nil {
			t.Fatal(err)
		}
		o, bad := oneCase(t, rep, r.Spec, r.Path, r.Mut, r.Cfg)
		if o != nil && o.t != nil {
			fmt.Printf("replay cfg=%+v %s\n  fired=%+v result=%v exc=%v err=%v errInternal=%v probe=%v/%v\n", r.Cfg, o.t, o.fired, o.t.Result, o.excActive, o.errAfter, o.errInt, o.probeAdd, o.probeRem)
			for _, tx := range o.t.Txs {
				fmt.Printf("  tx auto=%v %s%v accepted=%v exits=%v enters=%v %v -> %v\n", tx.IsAuto, tx.Type, tx.Called, tx.Accepted, tx.Exits, tx.Enters, tx.Before, tx.After)
			}
			fmt.Printf("  calls=%v\n", kit.CallNames(o.log.Calls))
		}
		for _, b := range bad {
			fmt.Println("  violation:", b)
			rep.Violate("c08:"+b[:strings.Index(b, ":")], b, r)
		}
		rep.Add("states", 1)
		rep.Add("transitions", 1)
		return
	}
	shard, nshard := kit.Shard()

	// base transitions: BFS on small schemas (handler-less exploration to find
	// states and paths; the faults run on handler-bound twins)
	type base struct {
		sp   kit.Spec
		path []kit.Step
		mut  kit.Step
	}
	var bases []base
	var specs []kit.Spec
	n2 := (&kit.Space{N: 2, Multi: true, Rels: 3}).Build()
	stride := int64(13)
	if kit.Thorough() {
		stride = 1
	}
	for c := int64(0); c < n2.Size(); c += stride {
		specs = append(specs, n2.Decode(c))
	}
	for _, f := range kit.Families(3) {
		if strings.Contains(f.Name, "auto") {
			continue
		}
		specs = append(specs, f.Spec)
	}
	// one schema with an Auto state (containment only)
	specs = append(specs, kit.Spec{{Auto: true}, {Remove: 1}})
	for _, sp := range specs {
		if sp.HasReqRemConflict() {
			continue
		}
		muts := kit.Mutations(sp, []string{"add", "remove", "set"}, false)
		kit.ExploreSpec(sp, muts, kit.ExploreOpts{MaxStates: 40}, func(tr *kit.Trans) {
			if tr.Panic == "" && !slices.Equal(tr.TimeBefore, tr.TimeAfter) {
				bases = append(bases, base{sp, tr.Path, tr.Mut})
			}
		})
	}
	// the same transitions on a machine that is already in Exception (an
	// earlier error was never handled): every 3rd base
	nb := len(bases)
	for i := 0; i < nb; i += 5 {
		b := bases[i]
		bases = append(bases, base{b.sp, append([]kit.Step{{Op: "adderr"}}, b.path...), b.mut})
	}
	rep.Note("bases", len(bases))
	kinds := []string{"perr", "pstr", "stall"}
	kit.Par(len(bases), func(i int) {
		if i%nshard != shard {
			return
		}
		if rep.OverBudget() {
			rep.NotExhaustive("budget")
			return
		}
		b := bases[i]
		report := func(c cfg, o *outcome, bad []string) {
			rep.Add("evaluations", 1)
			if o != nil && len(o.fired) > 0 {
				rep.Add("nontrivial", 1)
				rep.Distinct("fault_shapes", fmt.Sprintf("%s/%s/%d", o.fired[0].Name, o.fired[0].Kind, len(o.fired)))
			}
			for _, x := range bad {
				sig := "c08:" + x[:strings.Index(x, ":")]
				if o != nil && len(o.fired) > 0 {
					sig += ":" + kit.HandlerKind(o.fired[0].Name)
					if strings.HasPrefix(o.fired[0].Name, "Exception") {
						sig += "-exc"
					}
				}
				rep.Violate(sig, fmt.Sprintf("%s :: cfg=%+v schema[%s] path=%v %s", x, c, b.sp, b.path, b.mut), replayT{kit.SeqReplay{Spec: b.sp, Schema: b.sp.String(), Path: b.path, Mut: b.mut}, c})
			}
		}
		// fault-free run: number of handler calls of the step
		c0 := cfg{Bindings: 1}
		o0, bad0 := oneCase(t, rep, b.sp, b.path, b.mut, c0)
		report(c0, o0, bad0)
		if o0 == nil || o0.t.Panic != "" {
			return
		}
		n := len(o0.log.Calls)
		rep.Add("states", 1)
		for at := 0; at < n; at++ {
			for _, k := range kinds {
				c := cfg{Bindings: 1, Faults: []fault{{at, k}}}
				o, bad := oneCase(t, rep, b.sp, b.path, b.mut, c)
				report(c, o, bad)
				rep.Add("transitions", 1)
				if o == nil || o.t.Panic != "" || len(o.fired) == 0 {
					continue
				}
				// second fault: any later call position of the (now longer) step,
				// which includes the Exception transition's own handlers
				if i%32 == 0 || kit.Thorough() {
					n2 := len(o.log.Calls)
					for at2 := at + 1; at2 < n2; at2++ {
						for _, k2 := range []string{"perr", "stall"} {
							c2 := cfg{Bindings: 1, Faults: []fault{{at, k}, {at2, k2}}}
							o2, bad2 := oneCase(t, rep, b.sp, b.path, b.mut, c2)
							report(c2, o2, bad2)
							rep.Add("transitions", 1)
						}
					}
				}
			}
			// deadline stall and the ExceptionHandler-embedding binding: a sample of positions
			if at == 0 || at == n-1 {
				for _, c := range []cfg{{Bindings: 1, Faults: []fault{{at, "deadline"}}}, {Bindings: 2, Faults: []fault{{at, "perr"}}}, {Bindings: 1, ExcEmbed: true, Faults: []fault{{at, "pstr"}}}} {
					o, bad := oneCase(t, rep, b.sp, b.path, b.mut, c)
					report(c, o, bad)
					rep.Add("transitions", 1)
				}
			}
		}
	})
	if len(bases) > 0 {
		b := bases[len(bases)/2]
		rep.Sample(4, map[string]any{"schema": b.sp.String(), "path": b.path, "mutation": b.mut.String(), "faults": "every handler call position x {panic(error), panic(string), stall>timeout}; pairs; deadline stall and 2 bindings at first/last position"})
	}
}
