package kit

import (
	"context"
	"fmt"
	"slices"
	"strings"
	"time"

	am "github.com/pancsta/asyncmachine-go/pkg/machine"
)

// Step is one operation of a sequential history.
type Step struct {
	Op     string `json:"op"` // add | remove | set | canadd | canremove | adderr | toggle
	Called am.S   `json:"called"`
}

func (s Step) String() string { return s.Op + "(" + strings.Join(s.Called, ",") + ")" }

// Apply performs the step on a machine and returns the Result.
func (s Step) Apply(m *am.Machine) am.Result {
	switch s.Op {
	case "add":
		return m.Add(slices.Clone(s.Called), nil)
	case "remove":
		return m.Remove(slices.Clone(s.Called), nil)
	case "set":
		return m.Set(slices.Clone(s.Called), nil)
	case "toggle":
		return m.Toggle(slices.Clone(s.Called), nil)
	case "canadd":
		return m.CanAdd(slices.Clone(s.Called), nil)
	case "canremove":
		return m.CanRemove(slices.Clone(s.Called), nil)
	case "adderr":
		return m.AddErr(fmt.Errorf("e"), nil)
	}
	panic("unknown op " + s.Op)
}

// IsCheck: CanAdd / CanRemove.
func (s Step) IsCheck() bool { return s.Op == "canadd" || s.Op == "canremove" }

// TxRec is what a recording tracer saw for one transition (copied at
// TransitionEnd, before the machine cleans the transition's caches).
type TxRec struct {
	Id        string
	IsAuto    bool
	IsCheck   bool
	Accepted  bool
	Type      am.MutationType
	Called    am.S
	Before    am.Time
	After     am.Time
	Target    am.S // TargetStates() at TransitionEnd
	ActBefore am.S // StatesBefore()
	// MachTimeAtEnd is Machine.Time(nil) sampled inside TransitionEnd.
	MachTimeAtEnd am.Time
	ActiveAtEnd   am.S
	// Calls is the grammar string of tracer callbacks for this tx: I S F E.
	Calls string
	// Enters/Exits as computed by the machine.
	Enters, Exits am.S
	QueueTick     uint64
	// FinalsAfter / FinalsMach: the transition's TimeAfter and the machine's
	// Time(nil) as seen by the TransitionFinals callback (nil if not called).
	FinalsAfter, FinalsMach am.Time
}

// RecTracer records transitions. Not safe for concurrent machines.
type RecTracer struct {
	*am.TracerNoOp
	Txs  []TxRec
	cur  map[*am.Transition]*TxRec
	Raw  []string // every callback in order: "I:<id>" ...
	Mach *am.Machine
}

func NewRecTracer(id string) *RecTracer {
	return &RecTracer{TracerNoOp: &am.TracerNoOp{Id: id}, cur: map[*am.Transition]*TxRec{}}
}

func (r *RecTracer) get(t *am.Transition) *TxRec {
	x := r.cur[t]
	if x == nil {
		x = &TxRec{Id: t.Id}
		r.cur[t] = x
	}
	return x
}

func (r *RecTracer) TransitionInit(t *am.Transition) {
	r.Raw = append(r.Raw, "I:"+t.Id)
	r.get(t).Calls += "I"
}

func (r *RecTracer) TransitionStart(t *am.Transition) {
	r.Raw = append(r.Raw, "S:"+t.Id)
	r.get(t).Calls += "S"
}

func (r *RecTracer) TransitionFinals(t *am.Transition) {
	r.Raw = append(r.Raw, "F:"+t.Id)
	x := r.get(t)
	x.Calls += "F"
	x.FinalsAfter = slices.Clone(t.TimeAfter)
	if r.Mach != nil {
		x.FinalsMach = r.Mach.Time(nil)
	}
}

func (r *RecTracer) TransitionEnd(t *am.Transition) {
	r.Raw = append(r.Raw, "E:"+t.Id)
	x := r.get(t)
	x.Calls += "E"
	x.IsAuto = t.IsAuto()
	x.IsCheck = t.Mutation.IsCheck
	x.Accepted = t.IsAccepted.Load()
	x.Type = t.Type()
	x.Called = slices.Clone(t.CalledStates())
	x.Before = slices.Clone(t.TimeBefore)
	x.After = slices.Clone(t.TimeAfter)
	x.Target = slices.Clone(t.TargetStates())
	x.ActBefore = slices.Clone(t.StatesBefore())
	x.Enters = slices.Clone(t.Enters)
	x.Exits = slices.Clone(t.Exits)
	x.QueueTick = t.Mutation.QueueTick
	if r.Mach != nil {
		x.MachTimeAtEnd = r.Mach.Time(nil)
		x.ActiveAtEnd = r.Mach.ActiveStates(nil)
	}
	r.Txs = append(r.Txs, *x)
	delete(r.cur, t)
}

// Reset forgets recorded transitions.
func (r *RecTracer) Reset() { r.Txs = nil; r.Raw = nil }

// Trans is one explored transition of the state graph.
type Trans struct {
	Spec       Spec
	Path       []Step // history that reached Before from the empty machine
	Before     am.S   // ordered active states before
	TimeBefore am.Time
	Mut        Step
	Result     am.Result
	After      am.S
	TimeAfter  am.Time
	Txs        []TxRec // transitions the tracer saw for this step (incl. auto)
	Mach       *am.Machine
	Index      am.S // StateNames
	// Panic is set when the mutation call itself panicked (escaped to the
	// caller); Result/After are then meaningless and the machine is poisoned.
	Panic string
}

// SafeApply applies the step, converting an escaping panic into a string.
func SafeApply(s Step, m *am.Machine) (res am.Result, panicked string) {
	defer func() {
		if p := recover(); p != nil {
			panicked = fmt.Sprint(p)
			res = am.Canceled
		}
	}()
	return s.Apply(m), ""
}

// Replay is the replay object for a sequential case.
type SeqReplay struct {
	Spec   Spec   `json:"spec"`
	Schema string `json:"schema"`
	Path   []Step `json:"path"`
	Mut    Step   `json:"mut"`
}

func (t *Trans) Replay() SeqReplay {
	return SeqReplay{Spec: t.Spec, Schema: t.Spec.String(), Path: t.Path, Mut: t.Mut}
}

func (t *Trans) String() string {
	return fmt.Sprintf("schema[%s] path%v before=%v %s -> %v after=%v", t.Spec, t.Path, t.Before, t.Mut, t.Result, t.After)
}

// NewMach builds a fresh handler-less machine for a spec with a recording
// tracer; the state order is Names[:n] + Exception (VerifyStates), so index
// order is the schema's own.
func NewMach(sp Spec, setup func(m *am.Machine)) (*am.Machine, *RecTracer) {
	tr := NewRecTracer("rec")
	m := am.New(context.Background(), sp.Schema(), &am.Opts{Id: "m", Tracers: []am.Tracer{tr}})
	tr.Mach = m
	if err := m.VerifyStates(append(slices.Clone(sp.StateNames()), am.StateException)); err != nil {
		panic(err)
	}
	if setup != nil {
		setup(m)
	}
	return m, tr
}

// Mutations returns the mutation alphabet over the spec's states: ops x
// non-empty called subsets (index order; also reversed order for |called|>=2
// when bothOrders).
func Mutations(sp Spec, ops []string, bothOrders bool) []Step {
	var out []Step
	subs := Subsets(sp.StateNames())[1:]
	for _, op := range ops {
		for _, c := range subs {
			out = append(out, Step{op, c})
			if bothOrders && len(c) >= 2 {
				r := slices.Clone(c)
				slices.Reverse(r)
				out = append(out, Step{op, r})
			}
		}
	}
	return out
}

// ExploreOpts configures ExploreSpec.
type ExploreOpts struct {
	// Setup runs on every fresh machine (bind handlers etc.).
	Setup func(m *am.Machine)
	// MaxStates caps the BFS (0 = none); hitting it is reported via the return.
	MaxStates int
	// Key returns the canonical state key; default = ordered active list.
	Key func(m *am.Machine) string
	// ExtraInit are histories used as additional BFS roots (non-initial starts).
	ExtraInit [][]Step
	// BeforeMut runs after the path was replayed, right before the mutation.
	BeforeMut func(m *am.Machine)
}

// ExploreSpec runs a BFS over the machine states reachable by muts, calling
// visit for every (state, mutation) transition, executed on the real machine
// (fresh instance, shortest path replayed, then the mutation). Returns number
// of states, transitions, and whether the cap was hit.
func ExploreSpec(sp Spec, muts []Step, o ExploreOpts, visit func(t *Trans)) (states, transitions int, capped bool) {
	key := o.Key
	if key == nil {
		key = func(m *am.Machine) string { return strings.Join(m.ActiveStates(nil), ",") }
	}
	build := func(path []Step) (*am.Machine, *RecTracer) {
		m, tr := NewMach(sp, o.Setup)
		for _, s := range path {
			s.Apply(m)
		}
		return m, tr
	}
	seen := map[string]bool{}
	var frontier [][]Step
	roots := append([][]Step{nil}, o.ExtraInit...)
	for _, r := range roots {
		m, _ := build(r)
		k := key(m)
		if !seen[k] {
			seen[k] = true
			frontier = append(frontier, r)
		}
	}
	for len(frontier) > 0 {
		path := frontier[0]
		frontier = frontier[1:]
		states++
		for _, mu := range muts {
			m, tr := build(path)
			tr.Reset()
			t := &Trans{Spec: sp, Path: path, Mut: mu, Mach: m, Index: m.StateNames()}
			t.Before = m.ActiveStates(nil)
			t.TimeBefore = m.Time(nil)
			if o.BeforeMut != nil {
				o.BeforeMut(m)
			}
			t.Result, t.Panic = SafeApply(mu, m)
			if t.Panic != "" {
				transitions++
				visit(t)
				continue
			}
			t.After = m.ActiveStates(nil)
			t.TimeAfter = m.Time(nil)
			t.Txs = tr.Txs
			transitions++
			visit(t)
			k := key(m)
			if !seen[k] {
				if o.MaxStates > 0 && len(seen) >= o.MaxStates {
					capped = true
					continue
				}
				seen[k] = true
				np := append(slices.Clone(path), mu)
				frontier = append(frontier, np)
			}
		}
	}
	return
}

// RunStep builds a fresh machine (setup runs on it), replays path, then
// applies mut under arm (called right before the mutation, after the tracer
// was reset) and returns the recorded transition.
func RunStep(sp Spec, path []Step, mut Step, setup func(m *am.Machine), arm func(m *am.Machine)) *Trans {
	m, tr := NewMach(sp, setup)
	for _, s := range path {
		SafeApply(s, m)
	}
	tr.Reset()
	t := &Trans{Spec: sp, Path: path, Mut: mut, Mach: m, Index: m.StateNames()}
	t.Before = m.ActiveStates(nil)
	t.TimeBefore = m.Time(nil)
	if arm != nil {
		arm(m)
	}
	t.Result, t.Panic = SafeApply(mut, m)
	if t.Panic == "" {
		t.After = m.ActiveStates(nil)
		t.TimeAfter = m.Time(nil)
	}
	t.Txs = tr.Txs
	return t
}

// ActiveOf derives the active set from a time slice.
func ActiveOf(index am.S, t am.Time) am.S {
	var out am.S
	for i, v := range t {
		if v%2 == 1 && i < len(index) {
			out = append(out, index[i])
		}
	}
	return out
}

// Bubbles: helper to dispose handler-bound machines inside a synctest bubble.
type Disposer struct{ ms []*am.Machine }

// Track registers a machine for disposal. Explorations use one machine at a
// time, so once many have piled up the earlier ones are released at once
// (every handler-bound machine holds a goroutine; a thorough-tier job creates
// hundreds of thousands).
func (d *Disposer) Track(m *am.Machine) {
	if len(d.ms) >= 1024 {
		d.DisposeAll()
	}
	d.ms = append(d.ms, m)
}
func (d *Disposer) Len() int { return len(d.ms) }
func (d *Disposer) DisposeAll() {
	for _, m := range d.ms {
		m.Dispose()
	}
	for _, m := range d.ms {
		<-m.WhenDisposed()
	}
	if len(d.ms) > 0 {
		time.Sleep(10 * time.Second)
	}
	d.ms = nil
}
