package kit

import (
	"fmt"
	"regexp"
	"strconv"
	"strings"

	am "github.com/pancsta/asyncmachine-go/pkg/machine"
)

var reTick = regexp.MustCompile(`([A-Za-z0-9_]+):(\d+)`)

// ParseStringAll parses "(A:1 B:3) [C:2]" into active / inactive tick maps.
func ParseStringAll(s string) (act, inact map[string]uint64, ok bool) {
	act, inact = map[string]uint64{}, map[string]uint64{}
	i := strings.Index(s, ")")
	if !strings.HasPrefix(s, "(") || i < 0 {
		return nil, nil, false
	}
	for _, m := range reTick.FindAllStringSubmatch(s[:i], -1) {
		v, _ := strconv.ParseUint(m[2], 10, 64)
		act[m[1]] = v
	}
	for _, m := range reTick.FindAllStringSubmatch(s[i:], -1) {
		v, _ := strconv.ParseUint(m[2], 10, 64)
		inact[m[1]] = v
	}
	return act, inact, true
}

var reInspect = regexp.MustCompile(`(?m)^([01]) (\S+)\n    \|Tick     (\d+)`)

// ParseInspect parses Machine.Inspect output into state -> (activeFlag, tick).
func ParseInspect(s string) map[string][2]uint64 {
	out := map[string][2]uint64{}
	for _, m := range reInspect.FindAllStringSubmatch(s, -1) {
		a, _ := strconv.ParseUint(m[1], 10, 64)
		v, _ := strconv.ParseUint(m[3], 10, 64)
		out[m[2]] = [2]uint64{a, v}
	}
	return out
}

// SingleViewParity checks one single-lock view string (StringAll) for internal
// parity consistency: states listed active have odd ticks, inactive even.
func SingleViewParity(stringAll string) []string {
	var bad []string
	act, inact, ok := ParseStringAll(stringAll)
	if !ok {
		return nil // disposed machine returns ""
	}
	for s, v := range act {
		if v%2 != 1 {
			bad = append(bad, fmt.Sprintf("StringAll lists %s active with even tick %d", s, v))
		}
	}
	for s, v := range inact {
		if v%2 != 0 {
			bad = append(bad, fmt.Sprintf("StringAll lists %s inactive with odd tick %d", s, v))
		}
	}
	return bad
}

// CheckViews compares every view of an idle machine with Time(nil); returns
// the disagreements (empty = all views agree and parity == activity).
func CheckViews(m *am.Machine) []string {
	var bad []string
	f := func(format string, a ...any) { bad = append(bad, fmt.Sprintf(format, a...)) }
	index := m.StateNames()
	t := m.Time(nil)
	if len(t) != len(index) {
		f("Time(nil) has %d entries, index %d", len(t), len(index))
		return bad
	}
	clock := m.Clock(nil)
	active := m.ActiveStates(nil)
	var wantActive, wantInactive am.S
	for i, s := range index {
		odd := t[i]%2 == 1
		if odd {
			wantActive = append(wantActive, s)
		} else {
			wantInactive = append(wantInactive, s)
		}
		if v := m.Tick(s); v != t[i] {
			f("Tick(%s)=%d but Time=%d", s, v, t[i])
		}
		if v, ok := clock[s]; !ok || v != t[i] {
			f("Clock[%s]=%d but Time=%d", s, v, t[i])
		}
		if m.Is1(s) != odd {
			f("Is1(%s)=%v but tick %d", s, m.Is1(s), t[i])
		}
		if m.Not1(s) == odd {
			f("Not1(%s)=%v but tick %d", s, m.Not1(s), t[i])
		}
		if m.Any1(s) != odd {
			f("Any1(%s)=%v but tick %d", s, m.Any1(s), t[i])
		}
		if am.IsActiveTick(t[i]) != odd {
			f("IsActiveTick(%d) wrong", t[i])
		}
		if ts := m.Time(am.S{s}); len(ts) != 1 || ts[0] != t[i] {
			f("Time([%s])=%v but Time(nil)[i]=%d", s, ts, t[i])
		}
	}
	if !SameSet(active, wantActive) || len(active) != len(wantActive) {
		f("ActiveStates=%v but odd ticks are %v", active, wantActive)
	}
	if len(wantActive) > 0 && !m.Is(wantActive) {
		f("Is(%v)=false", wantActive)
	}
	if len(wantInactive) > 0 && !m.Not(wantInactive) {
		f("Not(%v)=false", wantInactive)
	}
	// String
	str := m.String()
	if act, _, ok := ParseStringAll(str + " []"); ok {
		if len(act) != len(wantActive) {
			f("String()=%q lists %d active, want %v", str, len(act), wantActive)
		}
		for s, v := range act {
			i := m.Index1(s)
			if i < 0 || t[i] != v || v%2 != 1 {
				f("String()=%q disagrees on %s (Time=%v)", str, s, t)
			}
		}
	}
	sa := m.StringAll()
	if act, inact, ok := ParseStringAll(sa); ok {
		if len(act) != len(wantActive) || len(inact) != len(wantInactive) {
			f("StringAll()=%q, want active %v inactive %v", sa, wantActive, wantInactive)
		}
		for s, v := range act {
			if i := m.Index1(s); i < 0 || t[i] != v || v%2 != 1 {
				f("StringAll()=%q disagrees on active %s (Time=%v)", sa, s, t)
			}
		}
		for s, v := range inact {
			if i := m.Index1(s); i < 0 || t[i] != v || v%2 != 0 {
				f("StringAll()=%q disagrees on inactive %s (Time=%v)", sa, s, t)
			}
		}
	}
	ins := ParseInspect(m.Inspect(nil))
	if len(ins) != len(index) {
		f("Inspect lists %d states, want %d", len(ins), len(index))
	}
	for i, s := range index {
		if x, ok := ins[s]; ok && (x[1] != t[i] || (x[0] == 1) != (t[i]%2 == 1)) {
			f("Inspect says %s active=%d tick=%d, Time=%d", s, x[0], x[1], t[i])
		}
	}
	if m.StatesVerified() {
		if ser, _, err := m.Export(); err == nil {
			if !ser.Time.Equal(true, t) {
				f("Export().Time=%v but Time=%v", ser.Time, t)
			}
		}
	}
	if !m.IsTime(t, nil) {
		f("IsTime(Time(nil))=false")
	}
	if !m.WasTime(t, nil) {
		f("WasTime(Time(nil))=false")
	}
	if !m.IsClock(clock) {
		f("IsClock(Clock(nil))=false")
	}
	if !m.WasClock(clock) {
		f("WasClock(Clock(nil))=false")
	}
	return bad
}
