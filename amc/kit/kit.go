// Package kit: shared plumbing for the /verif harnesses: per-worker report
// files (merged by the `run` driver), sharding, a parallel map and small set
// helpers used by the reference predicates.
package kit

import (
	"encoding/json"
	"fmt"
	"os"
	"runtime"
	"slices"
	"sort"
	"strconv"
	"strings"
	"sync"
	"time"
)

// Violation is one property violation found by a worker. Sig is the stable
// signature matched against known-findings.jsonl by the driver.
type Violation struct {
	Sig    string `json:"sig"`
	Detail string `json:"detail"`
	// Replay is written by the driver to a replay file; it must contain
	// everything the harness needs to re-run exactly this case.
	Replay any `json:"replay"`
}

// Report is what one worker process writes to $AMC_OUT.
type Report struct {
	Property string `json:"property"`
	Tier     string `json:"tier"`
	Shard    string `json:"shard"`

	mu sync.Mutex

	// Counters are summed over workers by the driver. Conventional keys:
	// evaluations, states, transitions, traces, nontrivial.
	Counters map[string]int64 `json:"counters"`
	// Sets are unioned over workers (distinct counting across shards).
	Sets map[string]map[string]struct{} `json:"-"`
	// SetsOut is Sets flattened for JSON.
	SetsOut map[string][]string `json:"sets"`
	// Samples are concatenated (driver keeps a handful).
	Samples []any `json:"samples"`
	// Violations found.
	Violations []Violation `json:"violations"`
	// HarnessErrors make the driver exit 2 (never a VIOLATION).
	HarnessErrors []string `json:"harness_errors"`
	// Exhaustive is ANDed over workers.
	Exhaustive bool `json:"exhaustive"`
	// Notes are free-form key/values (bounds completed etc.); last writer wins
	// per key, the driver lists them per shard when they differ.
	Notes map[string]any `json:"notes"`
	WallS float64        `json:"wall_s"`

	start    time.Time
	maxViol  int
	violSigs map[string]int
}

// Env.
func Tier() string {
	if t := os.Getenv("VERIF_TIER"); t != "" {
		return t
	}
	return "quick"
}

func Thorough() bool { return Tier() == "thorough" }

func Seed() int64 {
	s, _ := strconv.ParseInt(os.Getenv("VERIF_SEED"), 10, 64)
	return s
}

// Shard returns (index, count) from AMC_SHARD="i/n" (default 0/1).
func Shard() (int, int) {
	s := os.Getenv("AMC_SHARD")
	if s == "" {
		return 0, 1
	}
	p := strings.Split(s, "/")
	i, _ := strconv.Atoi(p[0])
	n, _ := strconv.Atoi(p[1])
	if n < 1 {
		n = 1
	}
	return i, n
}

// Budget is the wall-clock budget of this worker (AMC_BUDGET_S seconds);
// zero means none. Exceeding it ends enumeration with Exhaustive=false, it is
// never an oracle.
func Budget() time.Duration {
	s, _ := strconv.Atoi(os.Getenv("AMC_BUDGET_S"))
	return time.Duration(s) * time.Second
}

// ReplayPath is the replay file given to this run (or "").
func ReplayPath() string { return os.Getenv("AMC_REPLAY") }

// LoadReplay decodes the "replay" member of a replay file into v.
func LoadReplay(v any) error {
	b, err := os.ReadFile(ReplayPath())
	if err != nil {
		return err
	}
	var w struct {
		Replay json.RawMessage `json:"replay"`
	}
	if err := json.Unmarshal(b, &w); err != nil {
		return err
	}
	return json.Unmarshal(w.Replay, v)
}

func NewReport(property string) *Report {
	i, n := Shard()
	return &Report{
		Property: property, Tier: Tier(), Shard: fmt.Sprintf("%d/%d", i, n),
		Counters: map[string]int64{}, Sets: map[string]map[string]struct{}{},
		Notes: map[string]any{}, Exhaustive: true, start: time.Now(),
		maxViol: 40, violSigs: map[string]int{},
	}
}

func (r *Report) Add(key string, n int64) {
	r.mu.Lock()
	r.Counters[key] += n
	r.mu.Unlock()
}

// Distinct records member in the named set (distinct counting).
func (r *Report) Distinct(set, member string) {
	r.mu.Lock()
	s := r.Sets[set]
	if s == nil {
		s = map[string]struct{}{}
		r.Sets[set] = s
	}
	s[member] = struct{}{}
	r.mu.Unlock()
}

// Sample keeps up to max samples.
func (r *Report) Sample(max int, v any) {
	r.mu.Lock()
	if len(r.Samples) < max {
		r.Samples = append(r.Samples, v)
	}
	r.mu.Unlock()
}

func (r *Report) Note(k string, v any) {
	r.mu.Lock()
	r.Notes[k] = v
	r.mu.Unlock()
}

func (r *Report) NotExhaustive(why string) {
	r.mu.Lock()
	r.Exhaustive = false
	r.Notes["not_exhaustive"] = why
	r.mu.Unlock()
}

// Violate records a violation; the first of every signature always, then at
// most 3 per signature and maxViol overall are
// kept verbatim (all are counted).
func (r *Report) Violate(sig, detail string, replay any) {
	r.mu.Lock()
	defer r.mu.Unlock()
	r.Counters["violations_raw"]++
	r.violSigs[sig]++
	if r.violSigs[sig] > 3 {
		return
	}
	// the first violation of every signature is always kept: repeats of other
	// signatures (known findings above all) must never crowd out a new one
	if r.violSigs[sig] > 1 && len(r.Violations) >= r.maxViol {
		return
	}
	if len(r.violSigs) > 5000 {
		return
	}
	r.Violations = append(r.Violations, Violation{Sig: sig, Detail: detail, Replay: replay})
}

// KeepViolations raises the number of violations stored verbatim.
func (r *Report) KeepViolations(n int) { r.maxViol = n }

func (r *Report) HarnessError(format string, a ...any) {
	r.mu.Lock()
	r.HarnessErrors = append(r.HarnessErrors, fmt.Sprintf(format, a...))
	r.mu.Unlock()
}

func (r *Report) Elapsed() time.Duration { return time.Since(r.start) }

// OverBudget reports whether the worker budget is used up.
func (r *Report) OverBudget() bool {
	b := Budget()
	return b > 0 && time.Since(r.start) > b
}

// Write stores the report at $AMC_OUT (or prints it when unset).
func (r *Report) Write() {
	r.mu.Lock()
	defer r.mu.Unlock()
	r.WallS = time.Since(r.start).Seconds()
	r.SetsOut = map[string][]string{}
	for k, s := range r.Sets {
		l := make([]string, 0, len(s))
		for m := range s {
			l = append(l, m)
		}
		sort.Strings(l)
		r.SetsOut[k] = l
	}
	r.Counters["violation_sigs"] = int64(len(r.violSigs))
	b, err := json.Marshal(r)
	if err != nil {
		panic(err)
	}
	if p := os.Getenv("AMC_OUT"); p != "" {
		if err := os.WriteFile(p, b, 0o644); err != nil {
			panic(err)
		}
		return
	}
	// human mode
	fmt.Printf("property=%s tier=%s counters=%v exhaustive=%v notes=%v\n",
		r.Property, r.Tier, r.Counters, r.Exhaustive, r.Notes)
	for k, v := range r.SetsOut {
		fmt.Printf("  distinct %s = %d\n", k, len(v))
	}
	for _, v := range r.Violations {
		fmt.Printf("  VIOL sig=%s :: %s\n", v.Sig, v.Detail)
	}
	for _, e := range r.HarnessErrors {
		fmt.Printf("  HARNESS-ERROR %s\n", e)
	}
}

// Par runs fn(i) for i in [0,n) on all cores; workers pull indices in order.
func Par(n int, fn func(i int)) {
	w := runtime.GOMAXPROCS(0)
	if w > n {
		w = n
	}
	if w < 1 {
		w = 1
	}
	var wg sync.WaitGroup
	var mu sync.Mutex
	next := 0
	for k := 0; k < w; k++ {
		wg.Add(1)
		go func() {
			defer wg.Done()
			for {
				mu.Lock()
				i := next
				next++
				mu.Unlock()
				if i >= n {
					return
				}
				fn(i)
			}
		}()
	}
	wg.Wait()
}

// ---- set helpers over []string (reference side; deliberately naive) ----

func Has(s []string, x string) bool { return slices.Contains(s, x) }

func Subset(a, b []string) bool {
	for _, x := range a {
		if !Has(b, x) {
			return false
		}
	}
	return true
}

func SameSet(a, b []string) bool { return Subset(a, b) && Subset(b, a) }

func Diff(a, b []string) []string {
	var r []string
	for _, x := range a {
		if !Has(b, x) && !Has(r, x) {
			r = append(r, x)
		}
	}
	return r
}

func Inter(a, b []string) []string {
	var r []string
	for _, x := range a {
		if Has(b, x) && !Has(r, x) {
			r = append(r, x)
		}
	}
	return r
}

func Union(a, b []string) []string {
	var r []string
	for _, x := range a {
		if !Has(r, x) {
			r = append(r, x)
		}
	}
	for _, x := range b {
		if !Has(r, x) {
			r = append(r, x)
		}
	}
	return r
}

func Sorted(a []string) []string {
	r := slices.Clone(a)
	sort.Strings(r)
	return r
}

func Key(a []string) string { return strings.Join(Sorted(a), ",") }

// Subsets returns all subsets of u (in bitmask order; index 0 = empty).
func Subsets(u []string) [][]string {
	n := len(u)
	out := make([][]string, 0, 1<<n)
	for m := 0; m < 1<<n; m++ {
		var s []string
		for i := 0; i < n; i++ {
			if m&(1<<i) != 0 {
				s = append(s, u[i])
			}
		}
		out = append(out, s)
	}
	return out
}

// Perms returns all permutations of u (lexicographic by index).
func Perms(u []string) [][]string {
	if len(u) <= 1 {
		return [][]string{slices.Clone(u)}
	}
	var out [][]string
	for i := range u {
		rest := append(slices.Clone(u[:i]), u[i+1:]...)
		for _, p := range Perms(rest) {
			out = append(out, append([]string{u[i]}, p...))
		}
	}
	return out
}
