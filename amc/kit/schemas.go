package kit

import (
	"fmt"
	"strings"

	am "github.com/pancsta/asyncmachine-go/pkg/machine"
)

// Names of generated user states.
var Names = []string{"A", "B", "C", "D", "E", "F", "G", "H"}

// StateSpec is one generated state; relation targets are bitmasks over state
// indexes (bit i = Names[i]).
type StateSpec struct {
	Auto, Multi                 bool
	Require, Add, Remove, After uint8
}

// Spec is a generated schema over Names[:len(spec)].
type Spec []StateSpec

func maskNames(m uint8) am.S {
	var s am.S
	for i := 0; i < 8; i++ {
		if m&(1<<i) != 0 {
			s = append(s, Names[i])
		}
	}
	return s
}

// Schema builds the am.Schema literal.
func (sp Spec) Schema() am.Schema {
	sc := am.Schema{}
	for i, st := range sp {
		sc[Names[i]] = am.State{
			Auto: st.Auto, Multi: st.Multi,
			Require: maskNames(st.Require), Add: maskNames(st.Add),
			Remove: maskNames(st.Remove), After: maskNames(st.After),
		}
	}
	return sc
}

func (sp Spec) StateNames() am.S { return am.S(Names[:len(sp)]) }

// String is a compact human-readable literal, e.g. "A{auto add:B} B{rem:A}".
func (sp Spec) String() string {
	var parts []string
	for i, st := range sp {
		var f []string
		if st.Auto {
			f = append(f, "auto")
		}
		if st.Multi {
			f = append(f, "multi")
		}
		for _, r := range []struct {
			n string
			m uint8
		}{{"req", st.Require}, {"add", st.Add}, {"rem", st.Remove}, {"after", st.After}} {
			if r.m != 0 {
				f = append(f, r.n+":"+strings.Join(maskNames(r.m), ""))
			}
		}
		parts = append(parts, fmt.Sprintf("%s{%s}", Names[i], strings.Join(f, " ")))
	}
	return strings.Join(parts, " ")
}

// Space describes an enumerable family of Specs: n states; which attributes
// vary. Every Spec of the family has a unique code in [0, Size()).
type Space struct {
	N     int
	Auto  bool // vary Auto
	Multi bool // vary Multi
	Rels  int  // number of relation kinds varied: 3 = Require,Add,Remove; 4 = +After
	// MaxTargets limits the number of targets per relation (0 = unlimited).
	MaxTargets int
	perState   []StateSpec
}

// Build precomputes the per-state options (targets are "other" states, rotated
// into place per state index at decode time).
func (sp *Space) Build() *Space {
	others := sp.N - 1
	var relOpts []uint8 // masks over "other" slots
	for m := 0; m < 1<<others; m++ {
		if sp.MaxTargets > 0 && popcount(uint8(m)) > sp.MaxTargets {
			continue
		}
		relOpts = append(relOpts, uint8(m))
	}
	flags := []bool{false}
	var opts []StateSpec
	autos, multis := flags, flags
	if sp.Auto {
		autos = []bool{false, true}
	}
	if sp.Multi {
		multis = []bool{false, true}
	}
	afters := []uint8{0}
	if sp.Rels >= 4 {
		afters = relOpts
	}
	for _, au := range autos {
		for _, mu := range multis {
			for _, rq := range relOpts {
				for _, ad := range relOpts {
					for _, rm := range relOpts {
						for _, af := range afters {
							opts = append(opts, StateSpec{au, mu, rq, ad, rm, af})
						}
					}
				}
			}
		}
	}
	sp.perState = opts
	return sp
}

func popcount(m uint8) int {
	c := 0
	for ; m != 0; m &= m - 1 {
		c++
	}
	return c
}

// PerState is the number of options per state.
func (sp *Space) PerState() int { return len(sp.perState) }

// Size is the number of schemas in the space.
func (sp *Space) Size() int64 {
	s := int64(1)
	for i := 0; i < sp.N; i++ {
		s *= int64(len(sp.perState))
	}
	return s
}

// spread maps a mask over "other" slots of state i to a mask over state
// indexes (skipping i).
func spread(m uint8, i, n int) uint8 {
	var out uint8
	slot := 0
	for j := 0; j < n; j++ {
		if j == i {
			continue
		}
		if m&(1<<slot) != 0 {
			out |= 1 << j
		}
		slot++
	}
	return out
}

// Decode returns the Spec with the given code.
func (sp *Space) Decode(code int64) Spec {
	out := make(Spec, sp.N)
	k := int64(len(sp.perState))
	for i := 0; i < sp.N; i++ {
		o := sp.perState[code%k]
		code /= k
		out[i] = StateSpec{o.Auto, o.Multi,
			spread(o.Require, i, sp.N), spread(o.Add, i, sp.N),
			spread(o.Remove, i, sp.N), spread(o.After, i, sp.N)}
	}
	return out
}

// HasReqRemConflict: a state Requires and Removes the same state (after Parse's
// "don't Remove if in Add" rule) - Parse reports an error and the machine starts
// in Exception.
func (sp Spec) HasReqRemConflict() bool {
	for _, st := range sp {
		rem := st.Remove &^ st.Add
		if st.Require&rem != 0 {
			return true
		}
	}
	return false
}

// ---- parametric families (complete for their parameter) ----

// Family is a named generated schema.
type Family struct {
	Name string
	Spec Spec
}

func bit(i int) uint8 { return 1 << i }

// Families returns chains, rings, fans on n states (n in 3..6), with variants.
func Families(n int) []Family {
	var out []Family
	add := func(name string, sp Spec) { out = append(out, Family{fmt.Sprintf("%s/%d", name, n), sp}) }

	// Add chain 0 -> 1 -> ... -> n-1
	sp := make(Spec, n)
	for i := 0; i < n-1; i++ {
		sp[i].Add = bit(i + 1)
	}
	add("addchain", sp)
	// reversed-index add chain n-1 -> ... -> 0
	sp = make(Spec, n)
	for i := 1; i < n; i++ {
		sp[i].Add = bit(i - 1)
	}
	add("addchain-rev", sp)
	// Add ring
	sp = make(Spec, n)
	for i := 0; i < n; i++ {
		sp[i].Add = bit((i + 1) % n)
	}
	add("addring", sp)
	// Require chain 0 requires 1 requires ...
	sp = make(Spec, n)
	for i := 0; i < n-1; i++ {
		sp[i].Require = bit(i + 1)
	}
	add("reqchain", sp)
	sp = make(Spec, n)
	for i := 1; i < n; i++ {
		sp[i].Require = bit(i - 1)
	}
	add("reqchain-rev", sp)
	// Remove ring (each removes next) and mutual exclusion clique
	sp = make(Spec, n)
	for i := 0; i < n; i++ {
		sp[i].Remove = bit((i + 1) % n)
	}
	add("remring", sp)
	sp = make(Spec, n)
	for i := 0; i < n; i++ {
		sp[i].Remove = (1<<n - 1) &^ bit(i)
	}
	add("remclique", sp)
	// Add fan out / fan in
	sp = make(Spec, n)
	sp[0].Add = (1<<n - 1) &^ 1
	add("addfan-out", sp)
	sp = make(Spec, n)
	for i := 1; i < n; i++ {
		sp[i].Add = 1
	}
	add("addfan-in", sp)
	// Add chain with one blocker at each position: state n-1 removes state k,
	// chain over 0..n-2
	for k := 0; k < n-1; k++ {
		sp = make(Spec, n)
		for i := 0; i < n-2; i++ {
			sp[i].Add = bit(i + 1)
		}
		sp[n-1].Remove = bit(k)
		add(fmt.Sprintf("addchain-blocker@%d", k), sp)
		// and the chain element k requires the blocker-less state n-1
		sp2 := make(Spec, n)
		for i := 0; i < n-2; i++ {
			sp2[i].Add = bit(i + 1)
		}
		sp2[k].Require = bit(n - 1)
		add(fmt.Sprintf("addchain-req@%d", k), sp2)
	}
	// chains with Multi / Auto heads
	sp = make(Spec, n)
	for i := 0; i < n-1; i++ {
		sp[i].Add = bit(i + 1)
	}
	sp[0].Multi = true
	add("addchain-multihead", sp)
	sp = make(Spec, n)
	for i := 0; i < n-1; i++ {
		sp[i].Add = bit(i + 1)
	}
	sp[0].Auto = true
	add("addchain-autohead", sp)
	// all auto, chained by require
	sp = make(Spec, n)
	for i := 0; i < n; i++ {
		sp[i].Auto = true
		if i > 0 {
			sp[i].Require = bit(i - 1)
		}
	}
	add("auto-reqchain", sp)
	// autos mutually removing
	sp = make(Spec, n)
	for i := 0; i < n; i++ {
		sp[i].Auto = i < 3
		if i < 3 {
			sp[i].Remove = uint8(0b111) &^ bit(i)
		}
	}
	add("auto-remclique3", sp)
	// k Auto states without relations plus one plain state (last); and the
	// variant where every Auto state Requires the plain one
	sp = make(Spec, n)
	for i := 0; i < n-1; i++ {
		sp[i].Auto = true
	}
	add("autos-plus-plain", sp)
	sp = make(Spec, n)
	for i := 0; i < n-1; i++ {
		sp[i].Auto = true
		sp[i].Require = bit(n - 1)
	}
	add("autos-require-plain", sp)
	return out
}
