package kit

import (
	"slices"
	"strings"

	am "github.com/pancsta/asyncmachine-go/pkg/machine"
)

// HCall is one recorded handler invocation.
type HCall struct {
	Name    string // handler name without prefix, e.g. AEnter, AB, AnyState
	Binding string
	TxId    string
	Active  am.S    // machine.ActiveStates(nil) observed inside the handler
	Time    am.Time // machine.Time(nil) observed inside the handler
	Vetoed  bool    // this call returned false
	Seq     int     // global sequence number
}

// Kind classifies a handler name over single-letter state names.
// exit | enter | self | pair | anyenter | end | state | anystate
func (c HCall) Kind() string { return HandlerKind(c.Name) }

func HandlerKind(name string) string {
	switch {
	case name == "AnyEnter":
		return "anyenter"
	case name == "AnyState":
		return "anystate"
	case strings.HasSuffix(name, "Exit"):
		return "exit"
	case strings.HasSuffix(name, "Enter"):
		return "enter"
	case strings.HasSuffix(name, "State"):
		return "state"
	case strings.HasSuffix(name, "End"):
		return "end"
	case len(name) == 2 && name[0] == name[1]:
		return "self"
	case len(name) == 2:
		return "pair"
	}
	return "?"
}

// HandlerState returns the state a handler belongs to (target state for pair
// handlers).
func HandlerState(name string) string {
	switch HandlerKind(name) {
	case "exit":
		return strings.TrimSuffix(name, "Exit")
	case "enter":
		return strings.TrimSuffix(name, "Enter")
	case "state":
		return strings.TrimSuffix(name, "State")
	case "end":
		return strings.TrimSuffix(name, "End")
	case "self", "pair":
		return name[1:]
	}
	return ""
}

func IsNegotiation(kind string) bool {
	switch kind {
	case "exit", "enter", "self", "pair", "anyenter":
		return true
	}
	return false
}

// HLog collects handler calls of one machine and decides vetoes.
type HLog struct {
	Calls []HCall
	// VetoNames: negotiation handlers (by name) that return false.
	VetoNames map[string]bool
	// VetoAt: veto the k-th negotiation call (0-based, counted per machine since
	// the last ResetCounter) - -1 = none.
	VetoAt  int
	negSeen int
	// VetoAutoOnly: VetoNames apply only inside auto transitions.
	VetoAutoOnly bool
	// Hook, when set, runs inside every handler call (fault injection, nested
	// mutations).
	Hook func(c *HCall, e *am.Event)
	Mach *am.Machine
}

func NewHLog() *HLog { return &HLog{VetoNames: map[string]bool{}, VetoAt: -1} }

func (l *HLog) Reset() { l.Calls = nil; l.negSeen = 0 }

func (l *HLog) record(binding, name string, e *am.Event, neg bool) bool {
	c := HCall{Name: name, Binding: binding, TxId: e.TransitionId, Seq: len(l.Calls)}
	if l.Mach != nil {
		c.Active = l.Mach.ActiveStates(nil)
		c.Time = l.Mach.Time(nil)
	}
	ok := true
	if neg {
		byName := l.VetoNames[name]
		if byName && l.VetoAutoOnly {
			tx := e.Transition()
			byName = tx != nil && tx.IsAuto()
		}
		if byName || l.negSeen == l.VetoAt {
			ok = false
		}
		l.negSeen++
	}
	c.Vetoed = !ok
	l.Calls = append(l.Calls, c)
	if l.Hook != nil {
		l.Hook(&l.Calls[len(l.Calls)-1], e)
	}
	return ok
}

// BindAll binds a map-based binding with a logging handler for every handler
// name over states (Exit/Enter/State/End, self, all pairs) plus AnyEnter and
// AnyState. only, when non-nil, restricts the handler names that are bound.
func (l *HLog) BindAll(m *am.Machine, states am.S, binding, prefix string, only func(name string) bool) {
	neg := map[string]am.HandlerNegotiation{}
	fin := map[string]am.HandlerFinal{}
	addNeg := func(n string) {
		if only != nil && !only(n) {
			return
		}
		neg[n] = func(e *am.Event) bool { return l.record(binding, n, e, true) }
	}
	addFin := func(n string) {
		if only != nil && !only(n) {
			return
		}
		fin[n] = func(e *am.Event) { l.record(binding, n, e, false) }
	}
	for _, s := range states {
		addNeg(s + "Exit")
		addNeg(s + "Enter")
		addFin(s + "State")
		addFin(s + "End")
		for _, t := range states {
			addNeg(s + t)
		}
	}
	addNeg("AnyEnter")
	addFin("AnyState")
	opts := am.BindOpts{Id: binding}
	if prefix != "" {
		// StatePrefix: handler names are matched after trimming the prefix from
		// the event name, so a binding with prefix P only sees states named P*.
		opts.StatePrefix = prefix
	}
	if _, err := m.HandlersBindMaps(neg, fin, opts); err != nil {
		panic(err)
	}
}

// ByTx groups calls by transition id, preserving order.
func (l *HLog) ByTx() (order []string, by map[string][]HCall) {
	by = map[string][]HCall{}
	for _, c := range l.Calls {
		if _, ok := by[c.TxId]; !ok {
			order = append(order, c.TxId)
		}
		by[c.TxId] = append(by[c.TxId], c)
	}
	return
}

// Names returns the call names in order.
func CallNames(cs []HCall) []string {
	out := make([]string, len(cs))
	for i, c := range cs {
		out[i] = c.Name
	}
	return out
}

// Reachable: is `to` reachable from `from` over edges restricted to nodes in within.
func Reachable(edges map[string][]string, from, to string, within []string) bool {
	seen := map[string]bool{from: true}
	q := []string{from}
	for len(q) > 0 {
		x := q[0]
		q = q[1:]
		for _, y := range edges[x] {
			if !slices.Contains(within, y) {
				continue
			}
			if y == to {
				return true
			}
			if seen[y] {
				continue
			}
			seen[y] = true
			q = append(q, y)
		}
	}
	return false
}

// Record is the exported form of the logging handler body (for harnesses that
// bind extra handler names themselves).
func (l *HLog) Record(binding, name string, e *am.Event, neg bool) bool {
	return l.record(binding, name, e, neg)
}
