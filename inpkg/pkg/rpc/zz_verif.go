//go:build verif

package rpc

import (
	"context"
	"fmt"
	"slices"

	am "github.com/pancsta/asyncmachine-go/pkg/machine"
	"github.com/pancsta/asyncmachine-go/pkg/rpc/states"
)

// VerifPair wires a real Server (with its real source tracer) and a real
// Client + NetworkMachine together without any network: the handshake message
// is produced by Server.RemoteHello and consumed by Client.updateStatesSchema,
// updates are produced by the tracer + calcUpdate and consumed by
// Client.clockUpdate (verification harness only).
type VerifPair struct {
	Src *am.Machine
	S   *Server
	C   *Client
}

type VerifCfg struct {
	N          int
	Allowed    am.S // nil = all
	Skipped    am.S
	SyncSchema bool
	Shallow    bool
	SyncMuts   bool
}

type VerifSnap struct {
	Time      am.Time
	QueueTick uint64
	MachTick  uint32
}

func verifNames(n int) am.S {
	out := make(am.S, n)
	for i := range out {
		out[i] = fmt.Sprintf("S%d", i)
	}
	return out
}

// VerifNewPair builds the pair with the source holding snapshot a and performs
// the handshake.
func VerifNewPair(ctx context.Context, cfg VerifCfg, a VerifSnap) (*VerifPair, error) {
	names := verifNames(cfg.N)
	schema := am.Schema{}
	for _, n := range names {
		schema[n] = am.State{Multi: true}
	}
	src := am.New(ctx, schema, &am.Opts{Id: "src"})
	all := append(slices.Clone(names), am.StateException)
	if err := src.VerifyStates(all); err != nil {
		return nil, err
	}
	am.VerifMock(src, a.Time, a.QueueTick, a.MachTick)
	s, err := NewServer(ctx, "", "v", src, nil)
	if err != nil {
		return nil, err
	}
	// Start active without running the listening handlers
	st := make(am.Time, len(s.Mach.StateNames()))
	st[s.Mach.Index1(states.ServerStates.Start)] = 1
	am.VerifMock(s.Mach, st, 1, 0)
	req := &MsgCliHello{Id: "cli", SyncSchema: cfg.SyncSchema, AllowedStates: cfg.Allowed,
		SkippedStates: cfg.Skipped, ShallowClocks: cfg.Shallow, SyncMutations: cfg.SyncMuts}
	resp := &MsgSrvHello{}
	if err := s.RemoteHello(nil, req, resp); err != nil {
		return nil, fmt.Errorf("hello: %w", err)
	}
	var cschema am.Schema
	if cfg.SyncSchema {
		cschema = am.Schema{}
	}
	c, err := NewClient(ctx, "", "cli", cschema, &ClientOpts{NoSchema: !cfg.SyncSchema,
		AllowedStates: cfg.Allowed, SkippedStates: cfg.Skipped, SyncShallowClocks: cfg.Shallow,
		SyncMutations: cfg.SyncMuts})
	if err != nil {
		return nil, err
	}
	nm, nmi, err := NewNetworkMachine(ctx, PrefixNetMach+"cli", &clientNetMachConn{rpc: c}, nil,
		nil, c.Mach, nil, false)
	if err != nil {
		return nil, err
	}
	c.NetMach, c.netMachInt = nm, nmi
	c.updateStatesSchema(resp)
	ct := make(am.Time, len(c.Mach.StateNames()))
	ct[c.Mach.Index1(states.ClientStates.HandshakeDone)] = 1
	ct[c.Mach.Index1(states.ClientStates.Start)] = 1
	am.VerifMock(c.Mach, ct, 1, 0)
	return &VerifPair{Src: src, S: s, C: c}, nil
}

// Step moves the source to snapshot b, lets the real tracer record it, derives
// the update message and applies it to the client. Returns whether the client
// accepted it.
func (p *VerifPair) Step(b VerifSnap) (accepted bool, msg *MsgSrvUpdate) {
	am.VerifMock(p.Src, b.Time, b.QueueTick, b.MachTick)
	p.S.tracer.TransitionEnd(&am.Transition{Machine: p.Src, Mutation: &am.Mutation{}})
	data := p.S.tracer.DataLatest()
	msg = calcUpdate(p.S.syncSchema, data, p.S.lastPushData, p.S.syncShallowClocks)
	accepted = p.C.clockUpdate(msg, false)
	if accepted {
		p.S.storeLastPush(data)
	}
	return
}

// StepMuts is Step for per-mutation sync: a chain of snapshots is recorded and
// sent as one MsgSrvUpdateMuts.
func (p *VerifPair) StepMuts(bs []VerifSnap) bool {
	for _, b := range bs {
		am.VerifMock(p.Src, b.Time, b.QueueTick, b.MachTick)
		p.S.tracer.TransitionEnd(&am.Transition{Machine: p.Src, Mutation: &am.Mutation{}})
	}
	muts := p.S.tracer.DataQueue()
	msg := calcUpdateMutations(p.S.syncSchema, muts, p.S.lastPushData)
	ok := p.C.clockUpdateMutations(msg)
	if ok && len(muts) > 0 {
		p.S.storeLastPush(&muts[len(muts)-1].data)
	}
	return ok
}

// Mirror returns the client's view.
func (p *VerifPair) Mirror() (names am.S, t am.Time, q uint64, m uint32) {
	nm := p.C.NetMach
	return slices.Clone(nm.stateNames), slices.Clone(nm.machTime), nm.queueTick, nm.machTick
}

// Drift perturbs the mirror (as if an update had been lost or applied twice).
func (p *VerifPair) Drift(idx int, dTick uint64, dQueue uint64, dMach uint32) {
	nm := p.C.NetMach
	t := slices.Clone(nm.machTime)
	if idx >= 0 && idx < len(t) {
		t[idx] += dTick
	}
	p.C.netMachInt.Lock()
	p.C.netMachInt.UpdateClock(t, nm.queueTick+dQueue, nm.machTick+dMach)
}

// Tracked lists the tracked state names as the client computed them.
func (p *VerifPair) Tracked() am.S { return slices.Clone(p.C.trackedStates) }

// Dispose tears the three machines down one after another: inside a synctest
// bubble a goroutine waiting for a real mutex that is held across a fake-time
// sleep (doDispose) would stall the fake clock.
func (p *VerifPair) Dispose() {
	for _, m := range []*am.Machine{p.S.Mach, p.C.Mach, p.Src} {
		m.Dispose()
		<-m.WhenDisposed()
	}
}
