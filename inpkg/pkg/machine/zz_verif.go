//go:build verif

package machine

// VerifMock sets the machine's clock, queue tick and machine tick directly
// (verification harness only; overlaid under the build tag verif).
func VerifMock(m *Machine, t Time, queueTick uint64, machTick uint32) {
	m.activeStatesMx.Lock()
	m.queueMx.Lock()
	defer m.queueMx.Unlock()
	defer m.activeStatesMx.Unlock()
	m.activeStates = nil
	for i, name := range m.stateNames {
		if i >= len(t) {
			break
		}
		m.clock[name] = t[i]
		if IsActiveTick(t[i]) {
			m.activeStates = append(m.activeStates, name)
		}
	}
	m.queueTick = queueTick
	m.machineTick = machTick
}
