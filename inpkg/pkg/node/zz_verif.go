//go:build verif

package node

// Accessors for the /verif harness (overlaid into the package, never part of
// the repository): the supervisor's worker map is unexported.

// VerifPool returns the number of tracked workers and how many of them count
// as ready. Only call from inside a handler, a tracer callback or Eval (the
// same rule as for the unexported getters it uses).
func VerifPool(s *Supervisor) (tracked, ready int) {
	return len(s.workers), len(s.readyWorkers())
}

// VerifMin is the effective minimum (Min capped by Max).
func VerifMin(s *Supervisor) int { return s.min() }

// VerifWorkerAddrs lists the tracked workers' keys.
func VerifWorkerAddrs(s *Supervisor) []string {
	var out []string
	for k := range s.workers {
		out = append(out, k)
	}
	return out
}

// VerifWorkerErrs returns the number of remembered errors of a tracked worker.
func VerifWorkerErrs(s *Supervisor, addr string) int {
	w := s.workers[addr]
	if w == nil {
		return -1
	}
	return w.errs.ItemCount()
}
