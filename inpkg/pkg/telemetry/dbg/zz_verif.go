//go:build verif

package dbg

import (
	"net/rpc"

	"github.com/pancsta/asyncmachine-go/pkg/x/vnet"
)

// verifRpcDial replaces rpc.Dial("tcp4", addr) in verif builds (textual
// substitution): the telemetry client connects over the in-memory network.
func verifRpcDial(addr string) (*rpc.Client, error) {
	conn, err := vnet.Dial("tcp4", addr)
	if err != nil {
		return nil, err
	}
	return rpc.NewClient(conn), nil
}
