//go:build verif

package debugger

// Accessors for the /verif harness (overlaid, never part of the repository).

// VerifExport / VerifImport call the unexported export / import routines.
func VerifExport(d *Debugger, filename string) { d.hExportData(filename, false) }
func VerifImport(d *Debugger, path string)     { d.hImportData(path) }

// VerifFilterCursor maps a wanted 1-based cursor to the one the filters allow.
func VerifFilterCursor(d *Debugger, c *Client, cursor1 int, back bool) int {
	return d.hFilterTxCursor1(c, cursor1, back)
}
