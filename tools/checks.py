"""Per-property check configuration for the `run` driver."""

SEQ_ASSUME = [
    "sequential single-caller harness; the real machine is the transition function (fresh instance + replayed shortest path per successor)",
    "reference predicates are written from the property text and the manual, not from the resolver code",
]

CHECKS = {
    "C02": {
        "pkg": "harness/c02",
        "budget_s": {"quick": 100, "thorough": 1500},
        "meta": {
            "rule": "explicit-state BFS over ordered active lists of every schema in the enumerated spaces (all 1- and 2-state schemas; quick: all 3-state schemas with <=1 target per relation + a stride through the full 3-state space; thorough: all 16.7M 3-state schemas; plus parametric chain/ring/fan/blocker families n=3..6) x Add/Remove/Set over every non-empty called subset; a transition is non-trivial when the resolver's target differs from the naive candidate set (something implied, blocked or rejected); distinct = (family schema, active set, mutation, auto) for families, counted for the exhaustive spaces",
            "assumptions": SEQ_ASSUME + ["schemas whose Parse() reports a Require-Remove conflict are skipped (the property is about well-formed schemas)",
                                         "'excluded by a Remove relation' / 'reachable through Add' are read generously: the remover / adder may be any state that was active before, called, Add-implied or active afterwards"],
        },
    },
    "C01": {
        "parts": [
            {"pkg": "harness/c01"},
            {"pkg": "harness/c01s", "instr": {"features": ["sync", "go", "chan"], "pkgs": ["pkg/machine"]}, "sched": True,
             "shards": {"quick": 8, "thorough": 16}, "gomaxprocs": 2},
        ],
        "budget_s": {"quick": 120, "thorough": 1500},
        "meta": {
            "rule": "explicit-state BFS (ordered active list) over enumerated schemas incl. Multi/Auto x {add,remove,set,toggle,canadd,canremove over all non-empty subsets, AddErr} x handler configs {none, no-op bindings, veto on <=2 Auto states' Enter}; every step: all views vs Time(nil), per-state tick delta rule, tracer before/after chain, OnChange; non-trivial = step with an auto transition, a cancel, or a +2 Multi tick",
            "assumptions": SEQ_ASSUME + ["part 2 (harness/c01s) is the concurrent half: SCHED drivers mutator(s) || reader of single-lock views, all schedules with <= bound deviations; counts of both parts are summed", "a Multi state called by Remove that stays active may tick by 0 or 2 (the statement only fixes Add)"],
        },
    },
    "C04": {
        "pkg": "harness/c04",
        "instr": {"features": ["sync", "go", "chan"], "pkgs": ["pkg/machine"]},
        "sched": True,
        "shards": {"quick": 8, "thorough": 16},
        "gomaxprocs": 2,
        "budget_s": {"quick": 150, "thorough": 1500},
        "meta": {
            "rule": "stateless model checking: every schedule of each 2-3 thread driver with <= bound deviations from the causal default (zero-cost = keep the running thread, else the thread it woke) is executed on the real machine inside a synctest bubble; branch points = sync operations at call sites that touched an object accessed by >=2 threads with >=1 write (learned, restart on growth); states = distinct decision traces, transitions = decisions+executions; distinct_nontrivial = distinct end observations",
            "nontrivial_set": "outcomes",
            "assumptions": ["Go atomics are sequentially consistent; plain data races are C12's business", "timers fire only when no controlled thread can run (fake clock)", "instrumenter + shims trusted; replays are checked for determinism"],
        },
    },
    "C05": {
        "pkg": "harness/c05",
        "budget_s": {"quick": 150, "thorough": 1500},
        "meta": {
            "rule": "explicit-state BFS over real machines with logging handlers bound for every handler name: all 2-state schemas (flags + Require/Add/Remove/After), 3-state After x Require graphs (quick every 4th / thorough all 4096), 4-state After-only graphs (quick every 8th / thorough all 4096), families with two bindings; x Add/Remove/Set over all non-empty subsets x every veto position of the step's negotiation calls; a case is non-trivial when >=1 handler ran",
            "assumptions": SEQ_ASSUME + ["no precedence demand is made for a state that lies on a cycle of the After/Require graph of the whole schema", "AnyEnter is only required to run inside the negotiation phase", "relative order of two bindings is not demanded"],
        },
    },
    "C03": {
        "pkg": "harness/c03",
        "budget_s": {"quick": 150, "thorough": 1500},
        "meta": {
            "rule": "explicit-state BFS over real machines with logging handlers (1-state full, 2-/3-state strided as noted, families) x Add/Remove/Set over all non-empty subsets; each transition re-executed for every subset V of the negotiation handlers its fault-free run calls (all subsets up to maxAll handlers, else singles and pairs) + CanAdd/CanRemove twins + scenes (disposed, backoff, queue limit from a handler); non-trivial = a run in which a veto actually fired",
            "assumptions": SEQ_ASSUME + ["idle machine, single caller (the statement's precondition)", "Result is judged against the called mutation's own transition (first non-auto traced tx), not a following auto mutation", "Can* differential only for non-Multi called states"],
        },
    },
    "C07": {
        "pkg": "harness/c07",
        "budget_s": {"quick": 150, "thorough": 1500},
        "meta": {
            "rule": "explicit-state BFS over real machines with logging handlers: schemas containing Auto states (1-state full, 2-state stride 2/1, 3-state strided, all-Auto 3-state <=1 target strided, families) x Add/Remove/Set over all subsets + AddErr; each step re-executed for every subset (bounded) of the auto transition's own Enter/self/state-state handlers vetoing; oracle on the tracer sequence; non-trivial = step after which an auto mutation is due",
            "assumptions": SEQ_ASSUME + ["'relations reject it' is read generously: the state, or one it transitively Requires, is in the Remove relation of any candidate state", "a veto by AnyEnter, by an exiting state or by a state that is not a called Auto state cancels the transition (general rule)", "health mutations: no demand either way"],
        },
    },
    "C14": {
        "parts": [
            {"pkg": "harness/c14"},
            {"pkg": "harness/c14s", "instr": {"features": ["sync", "go", "chan"], "pkgs": ["pkg/machine"]}, "sched": True,
             "shards": {"quick": 8, "thorough": 16}, "gomaxprocs": 2},
        ],
        "budget_s": {"quick": 150, "thorough": 1500},
        "meta": {
            "rule": "explicit-state BFS over ordered active lists; each case is a whole history (BFS path + one mutation of add/remove/set/canadd/canremove over all non-empty subsets or AddErr) executed on a fresh real machine observed from the start by two recording tracers (Opts.Tracers and TracerBind) under handler configs {none, logging handlers, nested mutation from a final / negotiation handler, vetoing handler}; non-trivial = history with a canceled and an auto transition or with more transitions than mutations",
            "assumptions": SEQ_ASSUME + ["part 2 (harness/c14s) covers mutations from several goroutines: SCHED drivers with two tracers, all schedules with <= bound deviations", "handler faults are out of scope (C08)"],
        },
    },
    "C08": {
        "pkg": "harness/c08",
        "level": "fault_enumeration",
        "budget_s": {"quick": 200, "thorough": 2400},
        "meta": {
            "rule": "fault enumeration: base transitions = every state-changing (state, mutation) of BFS over 2-state schemas (stride 13 quick / all thorough) + non-auto families + one Auto schema, handlers bound for every name incl. Exception handlers; for every handler call position of the step x {panic(error), panic(string), stall 3xHandlerTimeout} one run in its own synctest bubble, ordered pairs (second fault anywhere later, incl. the Exception transition's handlers) on every 32nd base (all in thorough), every 5th base also from a machine already in Exception, deadline stall / two bindings / ExceptionHandler embedding at first and last position; distinct_nontrivial = distinct (handler name, fault kind, #faults) shapes that fired",
            "nontrivial_set": "fault_shapes",
            "assumptions": ["faults are injected by the harness' own logging handlers; one bubble per case (fake time, HandlerTimeout 100ms, HandlerDeadline 2s, HandlerBackoff 3s)", "rollback exactness is demanded for single faults, one binding, schemas without Auto states, judged on the state seen by the transition that follows the faulty one; re-entered Multi states are ignored", "sequences of faults: containment only (no escape, no wedge, parity == activity)", "after a deadline stall the probe runs after the documented backoff"],
        },
    },
    "C06": {
        "pkg": "harness/c06",
        "budget_s": {"quick": 150, "thorough": 1800},
        "meta": {
            "rule": "bounded-exhaustive over histories: 5 schemas (plain, Multi, Auto+Require, Add/Remove, partially accepted Auto) x every history of depth 3 (quick) / 4 (thorough) over an 7-10 letter mutation alphabet (incl. SetSchema growth, args, CanAdd) x 16-19 subscription specs (When, WhenNot, WhenTime, WhenTicks, WhenNextActive, WhenQuery, WhenArgs, WhenQueue, NewStateCtx) x every subscription position (before step p, or from inside the first final handler of step p) x ctx mode (nil, live, cancelled before step k); oracle from the recorded tick history; non-trivial = case in which the channel/ctx closed",
            "nontrivial_set": "closed_kinds",
            "assumptions": SEQ_ASSUME + ["ctx expiry: weaker reading (must close only after a transition ran since the ctx ended; may close earlier)", "the concurrent subscriber-vs-transition interleavings are covered by the in-handler subscription position (the only window: between setActiveStates and processSubscriptions) and by the SCHED drivers when built"],
        },
    },
    "C11": {
        "pkg": "harness/c11",
        "instr": {"features": ["maprange"], "pkgs": ["pkg/machine"]},
        "shards": {"quick": 8, "thorough": 16},
        "gomaxprocs": 2,
        "budget_s": {"quick": 150, "thorough": 1800},
        "meta": {
            "rule": "ENV exploration of map iteration orders: every range-over-map and maps.Keys/Values in pkg/machine (found with go/types on the current tree) is an ordered choice point (all n! orders for n<=4 keys, identity+reversal+rotations beyond); per case (schema with several Auto states / mutually Removing autos / 2-level Add fan / independent Require chains / duplicates / families, a 4-5 step history, with and without logging handlers) every execution with <= bound (1 quick, 2 thorough) non-default orders runs on the real machine; all must give the identical observation; non-trivial = execution with >=1 deviating order",
            "assumptions": ["map iteration order is the only source of nondeterminism modelled; random ids are not observed", "orders for maps with >4 keys are restricted to rotations and reversal"],
        },
    },
    "C19": {
        "pkg": "harness/c19",
        "pregen": [["go", "run", "./gen19", "-repo", "/repo", "-out", "harness/c19/zz_registry_test.go"]],
        "budget_s": {"quick": 150, "thorough": 1800},
        "meta": {
            "rule": "registry of every exported *Schema / *States / *Groups variable of importable packages, regenerated from a scan of the current tree on every run; per schema static checks on the raw literal (Parse, dangling references, Require cycles, Require-Remove conflicts, agreement with the typed state-name list, NewCommon accepts it) and explicit-state BFS over Add1/Remove1 of each relation-connected component on a handler-less real machine (successor = Import(snapshot) + mutation, every 64th state cross-checked by full path replay); invariants in every reachable set: Require closure, no two states that Remove one another, <=1 member of every exported group declared exclusive (>=2 members use the group as their Remove list); cap 3000 (quick) / 400000 (thorough) reachable sets per component",
            "assumptions": ["components that share no Require/Add/Remove relation are explored separately (no relation crosses them, so their reachable sets multiply)", "packages main / internal / build-constrained are not importable and are listed as skipped", "schema variables are found by name suffix (Schema/States/Groups) or an explicit am.Schema type"],
        },
    },
    "C13": {
        "pkg": "harness/c13",
        "instr": {"features": ["sync", "go", "chan", "detselect"], "pkgs": ["pkg/machine", "pkg/states", "pkg/helpers"]},
        "sched": True,
        "shards": {"quick": 8, "thorough": 16},
        "gomaxprocs": 2,
        "budget_s": {"quick": 200, "thorough": 1800},
        "meta": {
            "rule": "stateless model checking: 9 drivers (Dispose, with Start+Eval, twice, concurrent, parent-ctx cancel with Start, ctx cancel with Eval, from inside a handler, helpers.Dispose with the Disposed mixin, DisposeForce) x every schedule with <= bound deviations of {mutating thread, optional Eval thread, disposing thread(s)} against a workload with outstanding subscriptions; distinct_nontrivial = distinct end observations",
            "nontrivial_set": "outcomes",
            "assumptions": ["fake time: DisposeTimeout and the disposal sleeps elapse only when nothing else can run", "DisposeForce: only release and no-deadlock are demanded (documented to cause panics)", "instrumenter + shims trusted; pkg/states and pkg/helpers are instrumented too"],
        },
    },
    "C18": {
        "pkg": "harness/c18",
        "instr": {"features": ["sync", "go", "chan", "detselect"], "pkgs": ["pkg/machine", "pkg/states/pipes", "pkg/helpers"]},
        "sched": True,
        "shards": {"quick": 8, "thorough": 16},
        "gomaxprocs": 2,
        "budget_s": {"quick": 150, "thorough": 1800},
        "meta": {
            "rule": "stateless model checking: 9 drivers (Bind non-flat add/remove and burst of 4, BindMany, flat AddFlat/RemoveFlat burst, flat Err state with Exception already active on the target, Multi state, BindReady+BindStart, BindErr, BindAny); one toggling thread, the goroutines forked by the pipe handlers are controlled threads; every schedule with <= bound deviations; oracle at joint quiescence: target state active iff source state active (BindAny: equal active sets), every source mutation Executed; distinct_nontrivial = distinct end observations",
            "nontrivial_set": "outcomes",
            "assumptions": ["local targets only; network-machine targets are part of C09's harness", "instrumenter + shims trusted"],
        },
    },
    "C20": {
        "pkg": "harness/c20",
        "pregen": [["go", "run", "./gen20", "-repo", "/repo", "-out", "harness/c20/zz_funcs_test.go"]],
        "budget_s": {"quick": 300, "thorough": 1800},
        "hard_timeout_s": {"quick": 900, "thorough": 3600},
        "meta": {
            "rule": "(A) set/time algebra: all pairs of lists of length <=3 over a 3-name universe (incl. duplicates, nil, empty) against a set-theoretic reference, ParseStates with an unknown name, Time.* on all 2-vectors over 0..2, tick helpers; (B) totality: every exported method of *am.Machine (reflection) and every exported non-generic function of pkg/machine, pkg/helpers, pkg/integrations (registry regenerated from the current tree) x up to 24 argument tuples from a per-type grid (state lists incl. duplicates/empty/nil, nil/empty/non-empty args, live/cancelled ctx and nil ctx where the doc says optional, nil event for Ev* variants, an event without a machine, the running handler's own event, ints 0..2, no-op funcs) x 5 lifecycle phases (fresh, errored, after SetSchema, inside a handler, disposed); each call in its own fake-time bubble in a child process with a write-ahead log (fatal errors and real-lock blocks are attributed to the case); verdict: panic, or blocked for an hour of fake time, or 6 s of real time confirmed by re-running the case alone in a fresh process with a 20 s watchdog (unconfirmed hits are counted in the evidence as watchdog_hits_not_reproduced); (C) AddSync/RemoveSync/Cant*/Ask*/WaitFor* in forced scenarios vs what really happened; (D) values returned by getters documented as copies are modified and the machine re-read. non-trivial = algebra cases with duplicates. Thorough tier: lists of length <=4 over a 4-name universe (342 lists, 116,964 pairs), ParseStates inputs up to length 5, Time vectors over 0..5, ticks 0..65, up to 96 argument tuples per function and phase",
            "assumptions": ["functions that by contract wait for the machine (Sync/Async/WaitFor/Ask/Cant/Eval/Dispose...) are not called from inside a handler and 'blocks' is only a verdict for them on a disposed machine", "string parameters receive an existing state name; unknown state names panic by documentation", "functions needing network, environment or dedicated states are listed as skipped in the evidence notes"],
        },
    },
    "C09": {
        "parts": [
            {"pkg": "harness/c09", "instr": {"features": ["net"], "pkgs": ["pkg/rpc"]},
             "shards": {"quick": 8, "thorough": 16}, "gomaxprocs": 1},
            {"pkg": "harness/c09", "instr": {"features": ["net", "sync", "go"], "pkgs": ["pkg/rpc", "pkg/machine", "/verif/third_party/rpc2"]},
             "env": {"C09_PART": "delay"}, "shards": {"quick": 10, "thorough": 10}, "gomaxprocs": 1},
        ],
        "budget_s": {"quick": 240, "thorough": 2400},
        "hard_timeout_s": {"quick": 900, "thorough": 3600},
        "meta": {
            "rule": "real source machine + real rpc.Server + real rpc.Client/NetworkMachine over an in-memory network (vnet: the instrumenter rewrites `import \"net\"` of pkg/rpc), each execution in its own testing/synctest bubble (fake time). Part 1 (SEQ): every event history of depth <= 3 (thorough 4) over a 14-letter alphabet (source-side add/remove incl. Multi, Require-rejected and Auto states; add/remove/set issued through the network machine; hold / release of the server->client bytes; cut of the link; 150ms / 5s of time) x 7 (thorough 11) sync configurations (schema / no schema, allow / skip lists, shallow clocks, per-mutation sync, push interval 0 / 1ms / 100ms / 2s), plus a pipe configuration (a local machine piped with pipes.Bind into the network machine, push interval 2s, own alphabet of depth <= 4: piped add / remove, a slow handler keeping the remote machine busy, a client-issued mutation, time) whose oracle adds: piped state active on the remote machine exactly when it is on the pipe source; oracle: result of a client-issued mutation = what the source's tracer saw, effect visible in the mirror when the call returns, and a minute after the last event (bytes released) the client is Ready and the mirror equals the source on every synchronised state (parity for shallow clocks); every verdict is re-run and must reproduce. Part 2 (delay-bounded scheduling): 10 focused cases (two of them from the very start of the connection set-up); every lock acquisition and goroutine start of pkg/rpc, pkg/machine and rpc2 is a delay point keyed by source position + hit number; the default schedule plus every single delayed point x {1us, 60ms} (thorough: also every pair of points inside pkg/rpc) is executed; same oracle",
            "assumptions": ["with PushInterval 0 (documented: pushes disabled) convergence is only demanded after a final client-issued mutation", "client-issued mutations of states the network machine does not know are skipped (documented panic)", "hold keeps the bytes of the server->client direction back (a stalled link), cut closes both directions (a dropped connection); no byte is ever lost or reordered inside a live link", "part 2 delays stay below the default handler timeout (100ms): a longer stall inside a handler is a handler timeout, not this property's subject", "pipe mutations issued while the connection is down are lost by design of the pipes (not generated)", "goroutine scheduling inside a bubble is the Go scheduler's (GOMAXPROCS=1) except for the enumerated delays; verdicts that do not reproduce on an immediate re-run are counted (irreproducible) and not reported"],
        },
    },
    "C12": {
        "pkg": "harness/c12",
        "race": True,
        "shards": {"quick": 16, "thorough": 16},
        "gomaxprocs": 4,
        "budget_s": {"quick": 280, "thorough": 2400},
        "hard_timeout_s": {"quick": 900, "thorough": 3600},
        "meta": {
            "rule": "-race build of the harness; bounded-exhaustive enumeration of two-goroutine programs: every unordered pair (incl. an operation with itself) of 51 public Machine operations (mutations, checks, getters, When*/NewStateCtx subscriptions, handler / tracer binding, logger configuration, Log, Export, String/Inspect, queue getters, Eval, OnChange, ParseStates, SetSchema, Dispose), each operation 3 times, x 5 machine contexts (idle; a third goroutine running transitions with handlers and an Auto state; the same with a final handler that panics; a third goroutine adding and removing errors; cold = schema just replaced, lazily built copies absent) plus every pair of 20 NetworkMachine readers against a goroutine feeding clock updates (NetMachInternal.UpdateClock): about 6800 programs (thorough: plus every unordered triple of 14 core operations, three goroutines, in every context); oracle: the Go race detector's reports, read from the race log after every program and attributed to it; signature = first repository frame of both conflicting accesses",
            "assumptions": ["the race detector is a happens-before analysis of the executed program: a report does not need the two accesses to overlap in this run, but a race on a path the run did not take is not seen (each operation is repeated and run in 5 contexts to widen control flow)", "programs of more than two API goroutines are not enumerated (every data race involves two accesses; the third goroutine provides the transition context)", "programs that do not finish within 20s are counted (programs_not_finished), not judged"],
        },
    },
    "C15": {
        "pkg": "harness/c15",
        "instr": {"features": ["net", "sync", "go"], "pkgs": ["pkg/rpc", "pkg/node", "pkg/machine"], "inject": ["pkg/node"], "substfile": "inpkg/subst/mux-accept.json"},
        "shards": {"quick": 16, "thorough": 16},
        "gomaxprocs": 1,
        "budget_s": {"quick": 240, "thorough": 2400},
        "hard_timeout_s": {"quick": 900, "thorough": 3600},
        "meta": {
            "rule": "the real node.Supervisor with its whole fork pipeline (bootstrap RPC servers, rpc.Mux, per-worker rpc.Client) and real node.Workers created by the TestFork seam, all over the in-memory network and inside one testing/synctest bubble per execution; pool settings (Min,Max,Warm) in {(1,1,0),(1,2,0),(2,2,1),(2,3,1),(0,2,2),(3,2,1)} (+4 in thorough) x every event history of depth <= 3 (thorough: 4) over 13 events: time (2s / 61s = a Heartbeat), cut of a worker's links, injected worker errors, a worker dying, a worker turning not-Ready / Ready, a worker doing work, the next 2 forks failing, CheckPool, Heartbeat; a tracer on the supervisor samples len(workers) / readyWorkers() at every TransitionEnd (in-package accessor): tracked <= Max, no fork accepted at Max, PoolReady only activated with >= min ready and only withdrawn with < min ready, <=1 member of PoolStatus / PoolNormalized active; a tracer on every worker: <=1 member of WorkStatus; every worker seen with more than WorkerErrKill remembered errors had TestKill called by the end",
            "assumptions": ["pool settings are fixed before Start (SetPool on a running pool is a reconfiguration, not covered)", "WorkerErrKill=1 so that two injected errors cross the limit", "TestKill stops the worker and reports WorkerKilled (what the real kill path does)", "go-cache (error TTL caches) and rpc.Mux.accept carry a verif-only hook each so that a bubble can finish (janitor goroutines end on request; no spinning on a closed listener)", "goroutines left blocked after the tear-down are counted (leaked_goroutines_runs), not judged"],
        },
    },
    "C16": {
        "pkg": "harness/c16",
        "instr": {"features": ["net"], "pkgs": ["pkg/telemetry/dbg", "tools/debugger/server"], "inject": ["pkg/telemetry/dbg", "tools/debugger"], "substfile": "inpkg/subst/c16.json"},
        "shards": {"quick": 16, "thorough": 16},
        "gomaxprocs": 1,
        "budget_s": {"quick": 280, "thorough": 2400},
        "hard_timeout_s": {"quick": 900, "thorough": 3600},
        "meta": {
            "rule": "real source machines (Multi, Require-rejected, Auto, mutually removing, error states; a handler that queues a nested mutation) with the real telemetry tracer, connected over the in-memory network to the real am-dbg RPC server feeding a real headless Debugger (tcell simulation screen), one testing/synctest bubble per execution; every mutation history of depth <= 3 (thorough 4) over 9 mutations, every 5th also spread over two client machines; per client: (a) every transition seen by an independent recording tracer has exactly one record, in order, carrying the machine's own time after it, accepted/type/auto/called; (b) TimeSum, TimeDiff, StatesAdded/Removed of every parsed record recomputed from consecutive records, error index = records with an active error state, newest first; (c) TxIndex, TxAtQueueTick (tick and tick+1), TxAtMachTime, HadErrSinceTx (distances 1,2,5) for every record vs linear scans; (d) for 6 toolbar filter combinations incl. none (toggled through ToggleTool like the UI): filtered view = matching records, from every cursor position ScrollToTx, one step forward, one step back: cursor in range, never on an excluded record, forward never moves back, forward+back returns, no error on the debugger machine; (e) export, import into a second debugger: same records, parsed records and error index",
            "assumptions": ["queued auto records are not judged against the filters (their visibility depends on the transition that later executed them)", "touched states and log/reader entries are not compared", "check (Can*) transitions are not traced by default and not generated", "the telemetry client dials through a verif-only substitution (vnet instead of net/rpc's TCP dial)"],
        },
    },
    "C17": {
        "pkg": "harness/c17",
        "shards": {"quick": 1, "thorough": 1},
        "budget_s": {"quick": 240, "thorough": 2400},
        "meta": {
            "rule": "(A) in-memory backend vs a reference log built by an independent recording tracer: every history of depth 3 (thorough 4) over a 7-mutation alphabet (Multi, relation-rejected, handler-vetoed and check mutations included) x 32 tracking configs (4 tracked subsets x MaxRecords 1..3, TrackRejected, Called allow/block, Changed allow/block); record count, order, tracked time, time sum, MachineRecord, FindLatest x {Active, Inactive, Activated, Deactivated} x every tracked state x limits {0,1,2} x {no range, MTimeSum range}, Active/InactiveBetween, Export->Import; (B) bbolt, badger and gorm/sqlite on real files (QueueBatch 2) against the in-memory backend fed the same history: every 7th history x 9 configs (thorough: every history x every config) - queryable right after Sync, FindLatest(all / Active / Inactive / Activated / Deactivated per tracked state), errors reported through onErr, then stop (Dispose + close), reopen with a fresh machine: same log, and one more record goes on top; (C) long logs (8/24/60 toggles + 2 batches, MaxRecords 2 and 5): in-memory bound exact, persistent backends bounded (3x MaxRecords + batch once the collector ran) and newest MaxRecords records equal",
            "assumptions": ["a persistent backend may still hold records older than the in-memory window (lazy collector): the in-memory answer must then be the newest part of its answer, and Activated/Deactivated are not compared for that case nor for filtered (Called/Changed) logs, where 'changed' can be read against the skipped transition or the previous record (both readings are accepted for the in-memory backend, too)", "whether the oldest retained record 'activated' a state has no predecessor to be judged against and is not compared across backends", "the stop is a graceful one (Dispose + Close); a kill between Sync and Close is not simulated (Sync is documented not to guarantee persistence)", "part B and C run in real time on real files under the check's work directory"],
        },
    },
    "C10": {
        "pkg": "harness/c10",
        "instr": {"features": [], "pkgs": ["pkg/rpc"], "inject": ["pkg/machine", "pkg/rpc"]},
        "budget_s": {"quick": 200, "thorough": 1800},
        "meta": {
            "rule": "bounded-exhaustive: layouts = state counts 1..3 (thorough 4) x every non-empty tracked subset as allow- or skip-list (and all states) x {schema, no-schema} x {deep, shallow}; per layout all snapshot pairs with base ticks 0..2 and per-state deltas 0..2 (thorough 0..3), queue-tick deltas {0,1,3}, two base queue ticks; plus machine-tick bases {0,1,3} x deltas {0,1,255,256}, queue deltas {2^16-1, 2^16}, tick deltas {2^32-1, 2^32}; plus drift cases (each mirror perturbation of a small grid); each case: real handshake (Server.RemoteHello -> Client.updateStatesSchema), real sourceTracer.TransitionEnd + calcUpdate, real Client.clockUpdate, no network; non-trivial = case with a changed tracked state or a drift",
            "assumptions": ["source clocks are set through an overlaid test helper (VerifMock) instead of real mutations so that arbitrary snapshots, queue ticks and machine ticks are reachable", "exact round trip is demanded when every delta fits its message field; otherwise only 'not accepted with a wrong mirror'"],
        },
    },
}
