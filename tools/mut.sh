#!/bin/bash
# usage: tools/mut.sh <patch.diff> <check-id> [tier]   - applies a property-breaking patch to /repo,
# runs the check, reverts the patch. Prints the check's verdict lines.
P=$(realpath "$1"); ID=$2; TIER=${3:-quick}
git -C /repo apply "$P" || { echo "patch does not apply"; exit 3; }
cd /verif && ./run check "$ID" --tier "$TIER" | grep -E "^(VIOLATION|KNOWN|HARNESS|C[0-9]+ tier|  sig)" | cut -c1-400
RC=${PIPESTATUS[0]}
git -C /repo apply -R "$P" || echo "REVERT FAILED"
echo "rc=$RC"
