import json, re, glob, subprocess, importlib.util, sys
sys.path.insert(0,'/verif/tools')
spec=importlib.util.spec_from_file_location('checks','/verif/tools/checks.py'); checks=importlib.util.module_from_spec(spec); spec.loader.exec_module(checks)
CH=checks.CHECKS
known=[json.loads(l) for l in open('/verif/known-findings.jsonl') if l.strip() and not l.startswith('#')]
ev={}
for f in glob.glob('/verif/evidence/C*.json'):
    e=json.load(open(f)); ev[e['property_id']]=e
seeded={}
for f in sorted(glob.glob('/verif/seeded/*/meta.json')):
    d=json.load(open(f)); seeded[f.split('/')[-2]]=d
fixlog=subprocess.check_output(['git','-C','/repo','log','--format=%h %s','--reverse']).decode().splitlines()
fixes=[l for l in fixlog if ' fix:' in ' '+l]

def asbuilt(pid):
    c=CH[pid]; m=c['meta']
    parts=c.get('parts')
    out=[]
    out.append("**As built.** "+m['rule'].rstrip('.')+'.')
    if m.get('assumptions'):
        out.append("Readings and assumptions: "+"; ".join(a.rstrip('.') for a in m['assumptions'])+".")
    e=ev.get(pid)
    if e:
        cv=e['coverage']
        out.append("Last run on the current tree (%s tier%s): %s states, %s transitions, %s executions (%s non-trivial), %.0f s wall." % (e.get('tier'), '' if cv.get('exhaustive', True) else ', budget hit', cv.get('states'), cv.get('transitions'), cv.get('evaluations'), cv.get('distinct_nontrivial'), e.get('wall_s',0)))
    kf=[k for k in known if k['property']==pid and k.get('kind')=='finding']
    fx=[k for k in known if k['property']==pid and k.get('kind')=='fixed']
    if kf:
        out.append("Known findings (printed as KNOWN-FINDING, narrow signatures): "+" ".join("**%s** - %s." % (k['id'], k['what'].rstrip('.')) for k in kf))
    if fx:
        out.append("Defects found by this check and repaired in /repo (each replayed as a regression on every run): "+" ".join("`%s` %s." % (k['commit'], k['what'].rstrip('.')) for k in fx))
    sd=[(n,d) for n,d in seeded.items() if n.startswith(pid+'-')]
    if sd:
        out.append("Seeded changes: "+" ".join("%s (%s) - %s%s." % (n, d.get('what','').rstrip('.'), d.get('status'), (': '+d['note'].rstrip('.')) if d.get('note') else '') for n,d in sd))
    return "\n\n".join(out)

s=open('/verif/DESIGN.md').read()
# per-property sections: insert as-built paragraph after the heading
for pid in sorted(CH):
    m=re.search(r'^### %s – .*$' % pid, s, re.M)
    if not m:
        print('no section', pid); continue
    # remove an older as-built block if present
    nxt=s.find('\n### ', m.end())
    sec=s[m.end():nxt]
    sec=re.sub(r'\n\n<!-- as-built:start -->.*?<!-- as-built:end -->', '', sec, flags=re.S)
    block="\n\n<!-- as-built:start -->\n"+asbuilt(pid)+"\n\n*What follows is the stage-1 plan for this property, kept for its reasoning; where it differs from the paragraph above, the paragraph above is what runs.*\n<!-- as-built:end -->"
    s=s[:m.end()]+block+sec+s[nxt:]
open('/verif/DESIGN.md','w').write(s)
print('fixes', len(fixes))
json.dump(fixes, open('/verif/.work/fixes.json','w'))

# ---- regenerate sections 5.2 - 5.4 and the status counts
s=open('/verif/DESIGN.md').read()
a=s.index('### 5.2 `known-findings.jsonl` (committed, read-only at run time)')
b=s.index('### 5.5 False alarms found while building')
sec='''### 5.2 `known-findings.jsonl` (committed, read-only at run time)

One JSON object per line. `{"kind":"finding", "property", "id", "signature":
{"sig": exact | "sig_re": regular expression (full match)}, "what", "replay"}`
is a recorded genuine defect: a violation whose signature matches is printed as
`KNOWN-FINDING: property=<id> <what> [<finding id>]` and does not fail the
check; any other violation of the same property still does. `{"kind":"fixed",
"property", "commit", "what", "replay"}` documents a repair and is a regression
test: the replay runs with the check and a violation in it is reported as
`REGRESSION of fixed finding (<commit>)` with exit 1. The file is never written
at run time.

Recorded findings (not repaired: the repair is not small, or changes
documented behaviour):

| id | what fails |
|---|---|
'''
nf=0
for k in known:
    if k.get('kind')=='finding':
        nf+=1
        sec+="| %s | %s |\n" % (k['id'], k['what'].replace('|','/'))
sec+='''
### 5.3 Seeded property-breaking changes (`/verif/seeded/<id>-m<n>/`)

Two per property (m1, m2) plus a third round (m3) for C03 C06 C07 C10 C11 C14
C16 C18 against the final tree, written by sub-agents that were given only the property text
and a scratch worktree; each was confirmed (m1/m2 by hand, m3 by its author) (builds, the repository's
tests still pass, its own demonstration fails with the change and passes
without) before being kept with `patch.diff`, the demonstration, `run.sh` and
`meta.json`. `tools/mut.sh <patch> <check>` applies a patch to `/repo`, runs the
check and reverts it. Checks were strengthened where they missed one (noted in
the last column). Patches whose context was changed by a later repair were
rebased (`patch.orig.diff` keeps the original).

| seeded change | what it changes | result |
|---|---|---|
'''
ncaught=0
for n,d in seeded.items():
    if d.get('status')=='caught': ncaught+=1
    sec+="| %s | %s | %s%s |\n" % (n, (d.get('what') or '').replace('|','/'), d.get('status'), (" by "+str(d.get('caught_by')) if d.get('caught_by') else '') + ((" - "+d['note'].replace('|','/')) if d.get('note') else ''))
sec+='''
C09-m2 ("client computes the new clock before taking the update locks") loses a
pushed update; since repair 82fc1c3 a pushed update that fails its checksum
triggers a full sync, which repairs exactly that loss, so the change no longer
breaks the property on the current tree and C09 passes with it - by design.

Each check was also run against its own repairs reverted (`git show <commit> |
git apply -R`): every regression replay listed in `known-findings.jsonl` fails
on the tree without its fix.

### 5.4 Repairs made in `/repo` (`fix:` commits, oldest first)

Each is one commit touching only what the defect requires; the pinned suite
(218 stable tests, `tools/baseline.sh` on a scratch copy) passes with all of
them. Tests that are flaky under load on the pinned tree as well (pkg/rpc
TestMux, TestPartialAuto, pkg/machine TestWhenNot2) were re-run in isolation.

| commit | message |
|---|---|
'''
for l in fixes:
    h,msg=l.split(' ',1)
    sec+="| `%s` | %s |\n" % (h, msg.replace('|','/'))
sec+="\n"
s=s[:a]+sec+s[b:]
s=re.sub(r"printing `KNOWN-FINDING` lines for the \d+ recorded defects that\nwere not repaired\. \d+ genuine defects were repaired", "printing `KNOWN-FINDING` lines for the %d recorded defects that\nwere not repaired. %d genuine defects were repaired" % (nf, len(fixes)), s)
s=re.sub(r"\d+ of\nthe \d+ seeded property-breaking changes", "%d of\nthe %d seeded property-breaking changes" % (ncaught, len(seeded)), s)
open('/verif/DESIGN.md','w').write(s)
print('findings', nf, 'fixes', len(fixes), 'caught', ncaught)
