#!/bin/bash
# Runs the repository's pinned test suite (guard OFF: no build tag, no overlay)
# on a tree (default /repo) and compares against /root/.vp/BASELINE.json's
# stable_pass list. Exit 0 iff every stable test passes.
#   usage: tools/baseline.sh [repo-dir] [out.json]
DIR=${1:-/repo}
OUT=${2:-/verif/.work/baseline.gotest.json}
mkdir -p "$(dirname "$OUT")"
export GOFLAGS=-mod=mod GOPROXY=off
# the suite writes files next to its packages (amhist.db ...): /repo itself is
# never used as the run directory, its working tree is copied to a scratch
# directory outside /repo and /verif, which is removed afterwards
if [ "$(realpath "$DIR")" = "/repo" ]; then
  SCR=$(mktemp -d /tmp/amc-baseline.XXXXXX)
  trap 'rm -rf "$SCR"' EXIT
  rsync -a --exclude .git /repo/ "$SCR/"
  DIR=$SCR
fi
cd "$DIR" || exit 2
go test -mod=mod -json -vet=off -count=1 -timeout 25m ./... > "$OUT" 2>"$OUT.stderr"
python3 - "$OUT" <<'PY'
import json,sys
base=json.load(open('/root/.vp/BASELINE.json'))
stable=set(base['stable_pass'])
passed=set(); failed=set()
for line in open(sys.argv[1], errors='replace'):
    try: e=json.loads(line)
    except Exception: continue
    if e.get('Test') and e.get('Action') in('pass','fail'):
        k=e['Package']+'::'+e['Test']
        (passed if e['Action']=='pass' else failed).add(k)
missing=sorted(stable-passed)
print(f"baseline: stable={len(stable)} passed_now={len(passed)} failed_now={len(failed)} stable_missing={len(missing)}")
for m in missing: print("  NOT PASSING:",m)
sys.exit(1 if missing else 0)
PY
