HOOKS = {
    "guard": "verif",
    "enable": "go test -c -tags verif -overlay <generated overlay.json> (the overlay rewrites sync/atomic/go/chan operations of the instrumented packages into schedule points and adds //go:build verif files from /verif/inpkg; /repo itself carries no hook code)",
    "baseline_off_cmd": "/verif/tools/baseline.sh /repo",
    "source_commits": [],
    "add_only": True,
}
ENGINES = [
    {"name": "ENV", "path": "/verif/amc/kit + /verif/amc/explore", "serves_properties": ["C08", "C11"],
     "kind_free_text": "deviation-bounded enumeration of environment answers on one thread: fault kind/position per handler call, veto positions, map iteration orders; every placement up to the bound is executed on the real code inside a synctest bubble"},
    {"name": "SCHED", "path": "/verif/amc/shim/vsched + /verif/amc/explore + /verif/amc/instr", "serves_properties": ["C01", "C04", "C13", "C14"],
     "kind_free_text": "stateless model checking: source instrumenter (go build -overlay) turns every sync/atomic/go/channel operation into a schedule point of a cooperative scheduler running inside a testing/synctest bubble; DFS over choice lists with iterative deviation bounding, causal zero-cost continuation, conflict-based point reduction, replayable schedules"},
    {"name": "SEQ", "path": "/verif/amc/kit", "serves_properties": ["C01", "C02", "C03", "C05", "C06", "C07", "C14", "C19"],
     "kind_free_text": "sequential explicit-state search: BFS over the states of real machines (successor = fresh instance + replayed shortest path + one operation), enumerated schema spaces, reference predicates"},
]
NOTES = "All checks run the real code of /repo rebuilt from its working tree; exit 0 held / 1 unlisted violation / 2 harness error. known-findings.jsonl lists recorded genuine defects (printed as KNOWN-FINDING) and fixed ones (replayed as regressions)."
NOT_APPLICABLE = []
LEVELS = {
    "C02": {
        "engine": "SEQ",
        "technique": "explicit-state model checking of the real resolver: exhaustive schema enumeration x BFS over reachable active sets x all Add/Remove/Set mutations, reference relation predicates",
        "text": "Every transition of every enumerated schema (all 1-/2-state schemas, the 3-state spaces stated in the evidence, chain/ring/fan families up to 6 states) from every reachable ordered active list is executed on the real machine and checked against relation predicates written from the property text; bounded-exhaustive, which is the right level for an order-sensitive pure function over small relation graphs.",
        "design_ref": "DESIGN.md section 5 C02, section 4.4",
        "note": "Trusted: the recording tracer's TimeBefore/TimeAfter (cross-checked by C14/C01), the reference predicates. Not covered: schemas with >3 states outside the families; handler-bound machines (C03/C05/C07).",
    },
    "C01": {
        "engine": "SEQ",
        "technique": "explicit-state model checking on the real machine: schema enumeration x BFS over reachable states x all mutation kinds x handler configurations, view-agreement and tick-delta oracles",
        "text": "Every reachable state of every enumerated schema is expanded with every mutation kind; after each step all public views are compared with Time(nil), every traced transition's per-state tick delta is checked against the documented step table, and tracer/OnChange before/after times are chained. Bounded-exhaustive over small schemas, which is where tick arithmetic lives.",
        "design_ref": "DESIGN.md section 5 C01",
        "note": "Trusted: kit.CheckViews parsers. Handler-bound variants run inside testing/synctest bubbles (fake time). Part 2 (SCHED): mutator(s) || reader of single-lock views under every schedule with <= 2 (quick) / 3 (thorough) deviations.",
    },
    "C04": {
        "engine": "SCHED",
        "technique": "stateless model checking of goroutine interleavings on the real machine: controlled scheduler in a synctest bubble, iterative deviation bounding, conflict-based point reduction",
        "text": "Eight closed 2-3 thread drivers (plain, canceled, handler that mutates, veto, Eval, CanAdd, queue limit) are executed under every schedule with <= bound deviations (quick 2 handler-less / 1 with handlers, thorough 3/2); oracle at every quiescence: handler/eval mutual exclusion, no nested transitions, queue-tick order, no stranded mutation on an idle machine, WhenQueue closed for processed ticks, no deadlock. Exhaustive within the stated bound, which is what a lost-CAS window needs.",
        "design_ref": "DESIGN.md section 5 C04, section 4.2",
        "note": "Trusted: instrumenter/shims (every sync, atomic, go, channel op of pkg/machine is a schedule point), synctest fake clock. Not covered: >3 threads, deviations above the bound, handler timeouts (excluded by the statement).",
    },
    "C05": {
        "engine": "SEQ",
        "technique": "explicit-state model checking with enumerated veto positions: real machine + logging handlers, handler trace vs documented lifecycle",
        "text": "Every transition of the enumerated After/Require schema spaces from every reachable state runs with logging handlers for every handler name (1 and 2 bindings), fault-free and once per veto position; the handler trace is checked for phase order, After/Require precedence, before/after visibility, veto stops everything, finals exactly once per changed state per binding.",
        "design_ref": "DESIGN.md section 5 C05",
        "note": "Trusted: handler names over single-letter states are parsed by the harness; machines run in synctest bubbles. Struct (reflection) handlers and StatePrefix bindings are covered by C20/C08 harnesses only lightly.",
    },
    "C03": {
        "engine": "SEQ",
        "technique": "explicit-state model checking with enumerated veto subsets and twin-run differential for Can*",
        "text": "Every transition of the enumerated schemas from every reachable state is executed fault-free and once per veto subset; Canceled => nothing moved, Executed => the claim of the mutation kind holds on the transition's own after-time, Can* change nothing and agree with the twin machine's real mutation; plus deterministic early-return scenes in fake time.",
        "design_ref": "DESIGN.md section 5 C03",
        "note": "Trusted: recording tracer (cross-checked in C01/C14). Half-applied visibility is checked by C05's visibility oracle and the SCHED reader of C01.",
    },
    "C07": {
        "engine": "SEQ",
        "technique": "explicit-state model checking with enumerated veto assignments on auto transitions; oracle over the tracer sequence",
        "text": "For every reachable state and mutation the tracer sequence must show an auto mutation exactly when due, calling exactly the eligible inactive Auto states, never chained, never after a no-op; inside the auto transition every called Auto state is judged on its own (relations / own handlers), for every enumerated veto assignment.",
        "design_ref": "DESIGN.md section 5 C07",
        "note": "Trusted: reference predicate expectedAuto() written from the statement. Generous reading of relation-based rejection (documented in evidence assumptions).",
    },
    "C14": {
        "engine": "SEQ",
        "technique": "explicit-state model checking of whole histories with two independent recording tracers; grammar, chaining and time oracles",
        "text": "Every history (BFS path + one operation) over the enumerated schemas is run on a fresh machine with two tracers attached from the start; per tracer the callback grammar (Init Start Finals? End per transition, contiguous), Finals iff accepted, before/after chaining, TimeAfter == machine time at TransitionEnd, canceled/check => no change, last report == final time, and equality of the two tracers' sequences are checked.",
        "design_ref": "DESIGN.md section 5 C14",
        "note": "Trusted: nothing beyond the harness tracer itself. The dbg/history tracers named in the anchors are exercised by C16/C17.",
    },
    "C08": {
        "engine": "ENV",
        "technique": "exhaustive fault-position enumeration on the real machine (every handler call x fault kind, singly and in ordered pairs), one fake-time bubble per case",
        "text": "For every base transition every handler call position receives each fault kind; the mutating call must return, a probe mutation must execute afterwards, panic => Exception active with the message, timeout => Canceled + ErrHandlerTimeout, negotiation fault => nothing moved, final fault => exactly the unfinished activations/deactivations rolled back, parity == activity in every view.",
        "design_ref": "DESIGN.md section 5 C08, section 4.3",
        "note": "Trusted: synctest fake clock; the harness handlers. Struct-reflection handlers are exercised through the ExceptionHandler-embedding binding only.",
    },
    "C06": {
        "engine": "SEQ",
        "technique": "bounded-exhaustive enumeration of histories x subscription kinds x subscription positions (incl. mid-transition from a final handler) x ctx modes; iff-oracle from the recorded tick history",
        "text": "Every history up to the depth bound is replayed on a real machine once per (subscription spec, position, ctx mode); after every step the channel/ctx must be closed iff the tick history says its condition has held (or its ctx ended and a transition ran), and a state ctx must be cancelled iff its state's tick moved.",
        "design_ref": "DESIGN.md section 5 C06",
        "note": "Trusted: the harness tracer's time samples. WhenQueueEnds and multi-goroutine subscription races beyond the mid-transition window are not enumerated here.",
    },
    "C11": {
        "engine": "ENV",
        "technique": "exhaustive enumeration of map-iteration-order placements (deviation-bounded) on an instrumented build of the real machine; all executions of a case must be observationally identical",
        "text": "Determinism is a relation between runs: instead of re-running and hoping, every map iteration the machine performs is made an explicit ordered choice and every placement of <= 1 (quick) / 2 (thorough) non-default orders is executed; results, time after each step, active-state order and handler call sequence must not change.",
        "design_ref": "DESIGN.md section 5 C11, section 4.3",
        "note": "Trusted: mapsites (go/types on the current tree) finds every range-over-map; instrumented build passes pkg/machine's own tests in pass-through mode. A new map range added upstream is picked up automatically.",
    },
    "C19": {
        "engine": "SEQ",
        "technique": "static scan + explicit-state BFS over every shipped schema's reachable active sets on the real machine",
        "text": "Every exported schema found by scanning the current tree is checked statically and then explored breadth-first over single-state Add/Remove from the empty machine, component by component, with Require closure and mutual-Remove exclusivity evaluated in every reachable set; complete below the stated cap, which the evidence reports per schema.",
        "design_ref": "DESIGN.md section 5 C19",
        "note": "Trusted: Machine.Import/Export as the state loader (cross-checked against path replay). Schemas in package main examples are not covered.",
    },
    "C13": {
        "engine": "SCHED",
        "technique": "stateless model checking of disposal landing at every schedule point of a small workload (9 dispose variants), controlled scheduler in a synctest bubble, deviation bounding",
        "text": "Dispose / double Dispose / concurrent Dispose / parent-ctx cancel / Dispose from a handler / helpers.Dispose with the Disposed mixin / DisposeForce run against a mutating thread, an Eval thread and outstanding subscriptions under every schedule with <= 1 deviation (quick) or <= 2 deviations restricted to switches to the harness threads and Dispose's goroutines (thorough); oracle once WhenDisposed closes: all waiters released, state ctx cancelled, dispose handlers exactly once, handler goroutine gone, later calls return neutral values, no deadlock, no escaped panic.",
        "design_ref": "DESIGN.md section 5 C13, section 4.2",
        "note": "Trusted: instrumenter/shims incl. the deterministic-select expansion (a blocking select with several ready cases takes the first in source order); synctest fake clock. The thorough tier's thread focus is a declared under-approximation.",
    },
}
