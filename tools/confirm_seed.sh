#!/bin/bash
# usage: confirm_seed.sh <worktree> <mutant-dir> <pkgdir-for-demo> [extra test pkgs...]
# Confirms in a scratch worktree: demo passes on the clean tree, patch applies and builds,
# existing tests of the listed packages pass with it, demo fails with it. Restores the tree.
WT=$1; M=$2; PK=$3; shift 3
export GOFLAGS=-mod=mod GOPROXY=off
cd "$WT" || exit 2
git checkout -q -- . ; rm -f $PK/zz_mutant_demo_test.go
cp "$M/demo_test.go" $PK/zz_mutant_demo_test.go
go test -vet=off -count=1 -run 'Mutant' ./$PK/ > /tmp/cs.clean.log 2>&1; CLEAN=$?
rm -f $PK/zz_mutant_demo_test.go
git apply "$M/patch.diff" || { echo "RESULT $M patch-does-not-apply"; exit 1; }
go build ./pkg/... ./internal/... ./tools/... > /tmp/cs.build.log 2>&1; BUILD=$?
EX=0
for p in ./$PK/ "$@"; do go test -vet=off -count=1 -timeout 20m $p > /tmp/cs.exist.log 2>&1 || { EX=1; tail -5 /tmp/cs.exist.log; }; done
cp "$M/demo_test.go" $PK/zz_mutant_demo_test.go
go test -vet=off -count=1 -run 'Mutant' ./$PK/ > /tmp/cs.mut.log 2>&1; MUT=$?
rm -f $PK/zz_mutant_demo_test.go
git apply -R "$M/patch.diff"; git checkout -q -- .
echo "RESULT $M demo_clean_rc=$CLEAN build_rc=$BUILD existing_tests_rc=$EX demo_mutant_rc=$MUT"
