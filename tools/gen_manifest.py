#!/usr/bin/env python3
"""Generates /verif/MANIFEST.json from tools/checks.py + tools/manifest_meta.py."""
import json, os, sys
ROOT = os.path.dirname(os.path.dirname(os.path.abspath(__file__)))
sys.path.insert(0, os.path.join(ROOT, "tools"))
from checks import CHECKS
from manifest_meta import LEVELS, NOT_APPLICABLE, ENGINES, HOOKS, NOTES

props = [json.loads(l)["id"] for l in open(os.path.join(ROOT, "properties.jsonl"))]
checks = []
for pid in props:
    if pid not in CHECKS:
        continue
    lv = LEVELS[pid]
    checks.append({
        "property_id": pid,
        "quick_cmd": "./run check %s --tier quick" % pid,
        "thorough_cmd": "./run check %s --tier thorough" % pid,
        "evidence_file": "/verif/evidence/%s.json" % pid,
        "replay_cmd_template": "./run replay {path}",
        "engine": lv["engine"],
        "level_claimed": {"category": CHECKS[pid].get("level", "model_checking"), "text": lv["text"], "design_ref": lv["design_ref"]},
        "level_note": lv["note"],
        "technique": lv["technique"],
    })
na = [x for x in NOT_APPLICABLE if x["property_id"] not in CHECKS]
for pid in props:
    if pid not in CHECKS and not any(x["property_id"] == pid for x in na):
        na.append({"property_id": pid, "reason": "check not built yet (planned in DESIGN.md section 5); not claimed until its harness is committed"})
m = {"version": 1,
     "setup_cmd": "./run setup",
     "hooks": HOOKS, "engines": ENGINES, "checks": checks, "notes": NOTES, "not_applicable": na}
json.dump(m, open(os.path.join(ROOT, "MANIFEST.json"), "w"), indent=1)
print("MANIFEST.json: %d checks, %d not_applicable" % (len(checks), len(na)))
