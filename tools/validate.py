#!/opt/veriftools/pyvenv/bin/python
import json, jsonschema, glob, sys
ok = True
try:
    jsonschema.validate(json.load(open('/verif/MANIFEST.json')), json.load(open('/root/.vp/MANIFEST.schema.json')))
    print("MANIFEST ok")
except Exception as e:
    ok = False; print("MANIFEST INVALID", str(e)[:400])
sch = json.load(open('/root/.vp/EVIDENCE.schema.json'))
for f in sorted(glob.glob('/verif/evidence/*.json')):
    try:
        jsonschema.validate(json.load(open(f)), sch); print(f, "ok")
    except Exception as e:
        ok = False; print(f, "INVALID", str(e)[:400])
sys.exit(0 if ok else 1)
