#!/bin/bash
# usage: confirm_seed2.sh <worktree> <mutant-dir> <demo-pkg-dir> <demo go-test flags> -- <existing-test command...>
WT=$1; M=$2; PK=$3; DFLAGS=$4; shift 5
export GOFLAGS=-mod=mod GOPROXY=off
cd "$WT" || exit 2
git checkout -q -- . ; rm -f $PK/zz_mutant_demo_test.go
cp "$M/demo_test.go" $PK/zz_mutant_demo_test.go
go test -vet=off -count=1 $DFLAGS -run 'Mutant' ./$PK/ > /tmp/cs2.clean.log 2>&1; CLEAN=$?
rm -f $PK/zz_mutant_demo_test.go
git apply "$M/patch.diff" || { echo "RESULT $M patch-does-not-apply"; exit 1; }
go build ./pkg/... ./internal/... ./tools/... > /tmp/cs2.build.log 2>&1; BUILD=$?
"$@" > /tmp/cs2.exist.log 2>&1; EX=$?
cp "$M/demo_test.go" $PK/zz_mutant_demo_test.go
go test -vet=off -count=1 $DFLAGS -run 'Mutant' ./$PK/ > /tmp/cs2.mut.log 2>&1; MUT=$?
rm -f $PK/zz_mutant_demo_test.go
git apply -R "$M/patch.diff"; git checkout -q -- .
echo "RESULT $M demo_clean_rc=$CLEAN build_rc=$BUILD existing_tests_rc=$EX demo_mutant_rc=$MUT"
